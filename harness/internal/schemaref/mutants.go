package schemaref

import (
	"math/big"
	"strconv"
	"strings"

	"verifharness/internal/ev"
	"verifharness/internal/jsonv"
)

// Mutant is one variation of a valid instance.
type Mutant struct {
	Inst *jsonv.Value // the whole mutated instance
	Kind string       // "<keyword>/<variation>", e.g. "minimum/-1", "required/remove:name", "type/null"
	Path string       // JSON pointer of the node that was replaced
}

// Mutants returns single-keyword boundary mutants of inst, an instance that is
// valid against s. Every variation is applied at every position of the
// instance where the schema makes it applicable. Mutants are likely to sit on
// a validity boundary but are NOT guaranteed to be invalid (or valid): the
// caller asks Validate. No mutant is Equal to inst.
//
// Kinds: type/<json type>|stringified; minimum/… maximum/… (-1, at, +1, ±0.5,
// nearest multiples); multipleOf/(+step|-step|+1|+half); integer/half;
// minLength/(below|at|astral) maxLength/(above|at|astral); pattern/break;
// enum/non-member; minItems/(below|at) maxItems/(above|at);
// uniqueItems/(dup-append|dup-replace); required/remove:<name>;
// optional/(remove|add):<name>; additional/(add|add-valid|add-invalid);
// minProperties/below maxProperties/above; discriminator/(other|unknown|
// remove|non-string); sum/(add-foreign|merge-other).
func Mutants(s *jsonv.Value, res Resolver, inst *jsonv.Value, rng *ev.Rand) []Mutant {
	m := &mctx{res: res, rng: rng, root: inst}
	m.visitPos(s, inst, nil, "")
	return m.out
}

type mctx struct {
	res  Resolver
	rng  *ev.Rand
	root *jsonv.Value
	out  []Mutant
}

func substitute(v *jsonv.Value, steps []int, nv *jsonv.Value) *jsonv.Value {
	if len(steps) == 0 {
		return nv
	}
	c := *v
	i := steps[0]
	if v.Kind == jsonv.Array {
		c.Elems = append([]*jsonv.Value(nil), v.Elems...)
		c.Elems[i] = substitute(v.Elems[i], steps[1:], nv)
	} else {
		c.Members = append([]jsonv.Member(nil), v.Members...)
		c.Members[i].Value = substitute(v.Members[i].Value, steps[1:], nv)
	}
	return &c
}

func (m *mctx) emit(steps []int, path, kind string, old, nv *jsonv.Value) {
	if nv == nil || jsonv.Equal(old, nv) {
		return
	}
	m.out = append(m.out, Mutant{Inst: substitute(m.root, steps, nv), Kind: kind, Path: path})
}

func with(steps []int, i int) []int {
	return append(append(make([]int, 0, len(steps)+1), steps...), i)
}

// visitPos handles one position of the instance: type replacements once, then
// the schema-specific variations.
func (m *mctx) visitPos(s, v *jsonv.Value, steps []int, path string) {
	repl := []struct {
		kind string
		val  *jsonv.Value
		skip bool
	}{
		{"type/null", jsonv.NewNull(), v.Kind == jsonv.Null},
		{"type/boolean", jsonv.NewBool(true), v.Kind == jsonv.Bool},
		{"type/integer", intVal(7), v.Kind == jsonv.Number && v.Num.IsInteger()},
		{"type/number", jsonv.MustNumber("1.5"), v.Kind == jsonv.Number && !v.Num.IsInteger()},
		{"type/string", jsonv.NewString("x"), v.Kind == jsonv.String},
		{"type/array", jsonv.NewArray(), v.Kind == jsonv.Array},
		{"type/object", jsonv.NewObject(), v.Kind == jsonv.Object},
	}
	for _, r := range repl {
		if !r.skip {
			m.emit(steps, path, r.kind, v, r.val)
		}
	}
	switch v.Kind {
	case jsonv.Number, jsonv.Bool:
		m.emit(steps, path, "type/stringified", v, jsonv.NewString(string(jsonv.Compact(v))))
	case jsonv.String:
		if n, err := jsonv.NewNumber(v.Str); err == nil {
			m.emit(steps, path, "type/stringified", v, n)
		}
	}
	m.visitSchema(s, v, steps, path, 0)
}

func (m *mctx) visitSchema(s, v *jsonv.Value, steps []int, path string, hops int) {
	if hops > maxHops {
		return
	}
	s, msg := deref(s, m.res)
	if msg != "" {
		return
	}
	if a := s.Get("allOf"); a != nil && a.Kind == jsonv.Array {
		for _, mem := range a.Elems {
			m.visitSchema(mem, v, steps, path, hops+1)
		}
	}
	for _, kw := range []string{"oneOf", "anyOf"} {
		if a := s.Get(kw); a != nil && a.Kind == jsonv.Array {
			for i, variant := range a.Elems {
				if ok, _ := Validate(variant, v, m.res); ok {
					m.visitSchema(variant, v, steps, path, hops+1)
					m.sumMutants(s, a, i, v, steps, path)
					break
				}
			}
		}
	}
	if e := s.Get("enum"); e != nil && e.Kind == jsonv.Array {
		m.enumMutants(e, v, steps, path)
	}
	switch v.Kind {
	case jsonv.Number:
		m.numberMutants(s, v, steps, path)
	case jsonv.String:
		m.stringMutants(s, v, steps, path)
	case jsonv.Array:
		m.arrayMutants(s, v, steps, path)
		if it := s.Get("items"); it != nil && it.Kind == jsonv.Object {
			for i, e := range v.Elems {
				m.visitPos(it, e, with(steps, i), path+"/"+strconv.Itoa(i))
			}
		}
	case jsonv.Object:
		m.objectMutants(s, v, steps, path)
		props := s.Get("properties")
		ap := s.Get("additionalProperties")
		for i, mem := range v.Members {
			sub := path + "/" + PointerToken(mem.Name)
			if props != nil && props.Kind == jsonv.Object {
				if ps := props.Get(mem.Name); ps != nil {
					m.visitPos(ps, mem.Value, with(steps, i), sub)
					continue
				}
			}
			if ap != nil && ap.Kind == jsonv.Object {
				m.visitPos(ap, mem.Value, with(steps, i), sub)
			}
		}
	}
}

// ---------------------------------------------------------------- enum

func (m *mctx) enumMutants(e, v *jsonv.Value, steps []int, path string) {
	member := func(x *jsonv.Value) bool {
		for _, y := range e.Elems {
			if jsonv.Equal(x, y) {
				return true
			}
		}
		return false
	}
	var cands []*jsonv.Value
	switch v.Kind {
	case jsonv.String:
		cands = append(cands, jsonv.NewString(v.Str+"_"), jsonv.NewString(strings.ToUpper(v.Str)), jsonv.NewString(strings.ToLower(v.Str)), jsonv.NewString(""))
		if len(v.Str) > 0 {
			cands = append(cands, jsonv.NewString(v.Str[:len(v.Str)-1]))
		}
	case jsonv.Number:
		if r := v.Num.Rat(); r != nil {
			var lo, hi *big.Rat
			for _, y := range e.Elems {
				if yr := ratOf(y); yr != nil {
					if lo == nil || yr.Cmp(lo) < 0 {
						lo = yr
					}
					if hi == nil || yr.Cmp(hi) > 0 {
						hi = yr
					}
				}
			}
			one := big.NewRat(1, 1)
			cands = append(cands, ratVal(new(big.Rat).Add(r, one)), ratVal(new(big.Rat).Sub(r, one)))
			if hi != nil {
				cands = append(cands, ratVal(new(big.Rat).Add(hi, one)), ratVal(new(big.Rat).Sub(lo, one)))
			}
		}
	}
	n := 0
	for _, c := range cands {
		if c != nil && !member(c) && n < 3 {
			m.emit(steps, path, "enum/non-member", v, c)
			n++
		}
	}
}

// ---------------------------------------------------------------- numbers

func (m *mctx) numberMutants(s, v *jsonv.Value, steps []int, path string) {
	x := v.Num.Rat()
	if x == nil {
		return
	}
	t, _ := getStr(s, "type")
	integer := t == "integer"
	one, half := big.NewRat(1, 1), big.NewRat(1, 2)
	add := func(a, b *big.Rat) *jsonv.Value { return ratVal(new(big.Rat).Add(a, b)) }
	sub := func(a, b *big.Rat) *jsonv.Value { return ratVal(new(big.Rat).Sub(a, b)) }
	step := ratOf(s.Get("multipleOf"))
	if step != nil && step.Sign() <= 0 {
		step = nil
	}
	for _, kw := range []string{"minimum", "maximum"} {
		b := ratOf(s.Get(kw))
		if b == nil {
			continue
		}
		m.emit(steps, path, kw+"/-1", v, sub(b, one))
		m.emit(steps, path, kw+"/at", v, ratVal(b))
		m.emit(steps, path, kw+"/+1", v, add(b, one))
		if !integer {
			m.emit(steps, path, kw+"/-0.5", v, sub(b, half))
			m.emit(steps, path, kw+"/+0.5", v, add(b, half))
			m.emit(steps, path, kw+"/-0.125", v, sub(b, big.NewRat(1, 8)))
			m.emit(steps, path, kw+"/+0.125", v, add(b, big.NewRat(1, 8)))
			// a hair off the bound (exact in binary64): comparisons must be exact, not tolerant
			abs := new(big.Rat).Abs(b)
			if abs.Cmp(big.NewRat(1<<31, 1)) < 0 {
				eps := big.NewRat(1, 1<<20)
				m.emit(steps, path, kw+"/-2^-20", v, sub(b, eps))
				m.emit(steps, path, kw+"/+2^-20", v, add(b, eps))
			}
			if abs.Cmp(big.NewRat(1<<11, 1)) < 0 {
				eps := big.NewRat(1, 1<<40)
				m.emit(steps, path, kw+"/-2^-40", v, sub(b, eps))
				m.emit(steps, path, kw+"/+2^-40", v, add(b, eps))
			}
		}
		if step != nil {
			// the multiples around the bound isolate it from multipleOf
			k := ratFloor(new(big.Rat).Quo(b, step))
			at := new(big.Rat).Mul(new(big.Rat).SetInt(k), step)
			m.emit(steps, path, kw+"/multiple-below", v, ratVal(at))
			m.emit(steps, path, kw+"/multiple-above", v, add(at, step))
			m.emit(steps, path, kw+"/multiple-2below", v, sub(at, step))
		}
	}
	if step != nil {
		m.emit(steps, path, "multipleOf/+step", v, add(x, step))
		m.emit(steps, path, "multipleOf/-step", v, sub(x, step))
		if step.Cmp(one) > 0 {
			m.emit(steps, path, "multipleOf/+1", v, add(x, one))
			m.emit(steps, path, "multipleOf/-1", v, sub(x, one))
		}
		m.emit(steps, path, "multipleOf/+half", v, add(x, new(big.Rat).Mul(step, half)))
	}
	if integer {
		m.emit(steps, path, "integer/half", v, add(x, half))
	}
}

// ---------------------------------------------------------------- strings

func padTo(rs []rune, n int) []rune {
	pad := 'a'
	if len(rs) > 0 {
		pad = rs[len(rs)-1]
	}
	out := append([]rune(nil), rs...)
	for len(out) < n {
		out = append(out, pad)
	}
	return out[:n]
}

func (m *mctx) stringMutants(s, v *jsonv.Value, steps []int, path string) {
	rs := []rune(v.Str)
	pat, hasPat := getStr(s, "pattern")
	free := !hasPat && s.Get("enum") == nil
	lo, hasLo := getInt(s, "minLength")
	hi, hasHi := getInt(s, "maxLength")
	if hasLo {
		if lo >= 1 {
			m.emit(steps, path, "minLength/below", v, jsonv.NewString(string(padTo(rs, lo-1))))
		}
		m.emit(steps, path, "minLength/at", v, jsonv.NewString(string(padTo(rs, lo))))
		if free && lo >= 2 {
			// ceil(lo/2) astral characters: >= lo UTF-16 units and bytes, < lo code points
			m.emit(steps, path, "minLength/astral", v, jsonv.NewString(strings.Repeat("😀", (lo+1)/2)))
			// one code point short of the bound, in characters of 2, 3 and 4 bytes (a length decided from the byte count
			// with any fixed bytes-per-character ratio goes wrong for one of them)
			m.emit(steps, path, "minLength/below-2byte", v, jsonv.NewString(strings.Repeat("é", lo-1)))
			m.emit(steps, path, "minLength/below-3byte", v, jsonv.NewString(strings.Repeat("€", lo-1)))
			m.emit(steps, path, "minLength/below-4byte", v, jsonv.NewString(strings.Repeat("😀", lo-1)))
		}
	}
	if hasHi && hi < 4096 {
		m.emit(steps, path, "maxLength/above", v, jsonv.NewString(string(padTo(rs, hi+1))))
		m.emit(steps, path, "maxLength/at", v, jsonv.NewString(string(padTo(rs, hi))))
		if free && hi >= 1 && (!hasLo || hi >= lo) {
			// hi astral characters: valid, but 2*hi UTF-16 units and 4*hi bytes
			m.emit(steps, path, "maxLength/astral", v, jsonv.NewString(strings.Repeat("𝄞", hi)))
			m.emit(steps, path, "maxLength/at-2byte", v, jsonv.NewString(strings.Repeat("é", hi)))
			m.emit(steps, path, "maxLength/at-3byte", v, jsonv.NewString(strings.Repeat("€", hi)))
			m.emit(steps, path, "maxLength/above-4byte", v, jsonv.NewString(strings.Repeat("😀", hi+1)))
		}
	}
	if hasPat {
		fits := func(t string) bool {
			n := runeLen(t)
			return (!hasLo || n >= lo) && (!hasHi || n <= hi)
		}
		var cands []string
		if pc := patternIndex[pat]; pc != nil {
			// prefer non-matching examples that respect the length bounds
			for _, t := range pc.NonMatching {
				if fits(t) {
					cands = append(cands, t)
				}
			}
			for _, t := range pc.NonMatching {
				if !fits(t) {
					cands = append(cands, t)
				}
			}
		} else if re, err := compilePattern(pat); err == nil {
			for _, t := range []string{v.Str + "\x00", "\x00" + v.Str, "", "!", strings.ToUpper(v.Str), v.Str + " ", "0"} {
				if !re.MatchString(t) {
					cands = append(cands, t)
				}
			}
		}
		for i, t := range cands {
			if i >= 3 {
				break
			}
			m.emit(steps, path, "pattern/break", v, jsonv.NewString(t))
		}
	}
}

// ---------------------------------------------------------------- arrays

func (m *mctx) newItem(items *jsonv.Value, avoid []*jsonv.Value) *jsonv.Value {
	for try := 0; try < 12; try++ {
		var e *jsonv.Value
		if items != nil {
			e = GenInstance(items, m.res, m.rng)
		} else {
			e = RandomJSON(m.rng, 1)
		}
		if e == nil {
			return nil
		}
		dup := false
		for _, a := range avoid {
			if jsonv.Equal(a, e) {
				dup = true
			}
		}
		if !dup {
			return e
		}
	}
	return nil
}

func (m *mctx) arrayMutants(s, v *jsonv.Value, steps []int, path string) {
	items := s.Get("items")
	if items != nil && items.Kind != jsonv.Object {
		items = nil
	}
	unique := isTrue(s.Get("uniqueItems"))
	resize := func(n int) *jsonv.Value {
		if n < 0 {
			return nil
		}
		elems := append([]*jsonv.Value(nil), v.Elems...)
		if n <= len(elems) {
			return jsonv.NewArray(elems[:n]...)
		}
		for len(elems) < n {
			var e *jsonv.Value
			if unique || len(elems) == 0 {
				e = m.newItem(items, elems)
			} else {
				e = elems[m.rng.Intn(len(elems))].Clone()
			}
			if e == nil {
				return nil
			}
			elems = append(elems, e)
		}
		return jsonv.NewArray(elems...)
	}
	if lo, ok := getInt(s, "minItems"); ok {
		m.emit(steps, path, "minItems/below", v, resize(lo-1))
		m.emit(steps, path, "minItems/at", v, resize(lo))
	}
	if hi, ok := getInt(s, "maxItems"); ok && hi < 64 {
		m.emit(steps, path, "maxItems/above", v, resize(hi+1))
		m.emit(steps, path, "maxItems/at", v, resize(hi))
	}
	if s.Get("uniqueItems") != nil && len(v.Elems) >= 1 {
		i := m.rng.Intn(len(v.Elems))
		elems := append(append([]*jsonv.Value(nil), v.Elems...), v.Elems[i].Clone())
		m.emit(steps, path, "uniqueItems/dup-append", v, jsonv.NewArray(elems...))
		if len(v.Elems) >= 2 {
			j := (i + 1 + m.rng.Intn(len(v.Elems)-1)) % len(v.Elems)
			e2 := append([]*jsonv.Value(nil), v.Elems...)
			e2[j] = v.Elems[i].Clone()
			m.emit(steps, path, "uniqueItems/dup-replace", v, jsonv.NewArray(e2...))
		}
	}
}

// ---------------------------------------------------------------- objects

func freshName(v *jsonv.Value, props *jsonv.Value, base string) string {
	for i := 0; ; i++ {
		name := base
		if i > 0 {
			name = base + strconv.Itoa(i)
		}
		if v.Get(name) == nil && (props == nil || props.Get(name) == nil) {
			return name
		}
	}
}

func without(v *jsonv.Value, name string) *jsonv.Value {
	var ms []jsonv.Member
	for _, mem := range v.Members {
		if mem.Name != name {
			ms = append(ms, mem)
		}
	}
	return jsonv.NewObject(ms...)
}

func withMember(v *jsonv.Value, name string, val *jsonv.Value) *jsonv.Value {
	ms := append([]jsonv.Member(nil), v.Members...)
	ms = append(ms, jsonv.Member{Name: name, Value: val})
	return jsonv.NewObject(ms...)
}

func (m *mctx) objectMutants(s, v *jsonv.Value, steps []int, path string) {
	props := s.Get("properties")
	if props != nil && props.Kind != jsonv.Object {
		props = nil
	}
	ap := s.Get("additionalProperties")
	required := map[string]bool{}
	if r := s.Get("required"); r != nil && r.Kind == jsonv.Array {
		for _, n := range r.Elems {
			if n.Kind == jsonv.String && !required[n.Str] {
				required[n.Str] = true
				if v.Get(n.Str) != nil {
					m.emit(steps, path, "required/remove:"+n.Str, v, without(v, n.Str))
				}
			}
		}
	}
	if props != nil {
		for _, p := range props.Members {
			if required[p.Name] {
				continue
			}
			if v.Get(p.Name) != nil {
				m.emit(steps, path, "optional/remove:"+p.Name, v, without(v, p.Name))
			} else if val := GenInstance(p.Value, m.res, m.rng); val != nil {
				m.emit(steps, path, "optional/add:"+p.Name, v, withMember(v, p.Name, val))
			}
		}
	}
	// undeclared member
	if s.Get("properties") != nil || ap != nil || s.Get("required") != nil || getStrOr(s, "type") == "object" {
		name := freshName(v, props, "zz_undeclared")
		if ap != nil && ap.Kind == jsonv.Object {
			if val := GenInstance(ap, m.res, m.rng); val != nil {
				m.emit(steps, path, "additional/add-valid", v, withMember(v, name, val))
				var bad *jsonv.Value
				switch val.Kind {
				case jsonv.String:
					bad = intVal(7)
				case jsonv.Null:
					bad = jsonv.NewArray()
				default:
					bad = jsonv.NewString("x")
				}
				m.emit(steps, path, "additional/add-invalid", v, withMember(v, name, bad))
			}
		} else {
			m.emit(steps, path, "additional/add", v, withMember(v, name, jsonv.NewString("x")))
		}
	}
	if lo, ok := getInt(s, "minProperties"); ok && lo >= 1 && len(v.Members) >= lo {
		// drop optional members first, then any, down to lo-1
		cur := v
		for pass := 0; pass < 2 && len(cur.Members) > lo-1; pass++ {
			for i := len(cur.Members) - 1; i >= 0 && len(cur.Members) > lo-1; i-- {
				if pass == 1 || !required[cur.Members[i].Name] {
					cur = without(cur, cur.Members[i].Name)
				}
			}
		}
		m.emit(steps, path, "minProperties/below", v, cur)
	}
	if hi, ok := getInt(s, "maxProperties"); ok && hi < 64 {
		cur := v
		for len(cur.Members) <= hi {
			name := freshName(cur, props, "zz_more")
			var val *jsonv.Value
			if ap != nil && ap.Kind == jsonv.Object {
				val = GenInstance(ap, m.res, m.rng)
			}
			if val == nil {
				val = jsonv.NewString("x")
			}
			cur = withMember(cur, name, val)
		}
		m.emit(steps, path, "maxProperties/above", v, cur)
	}
}

func getStrOr(s *jsonv.Value, k string) string {
	t, _ := getStr(s, k)
	return t
}

// ---------------------------------------------------------------- sums

func (m *mctx) sumMutants(s, variants *jsonv.Value, chosen int, v *jsonv.Value, steps []int, path string) {
	if v.Kind != jsonv.Object {
		return
	}
	if d := s.Get("discriminator"); d != nil && d.Kind == jsonv.Object {
		if prop, ok := getStr(d, "propertyName"); ok {
			setTag := func(val *jsonv.Value) *jsonv.Value {
				c := *v
				c.Members = append([]jsonv.Member(nil), v.Members...)
				for i := range c.Members {
					if c.Members[i].Name == prop {
						c.Members[i].Value = val
						return &c
					}
				}
				c.Members = append(c.Members, jsonv.Member{Name: prop, Value: val})
				return &c
			}
			for i, other := range variants.Elems {
				if i == chosen {
					continue
				}
				if key, _, ok := discriminatorKey(s, other); ok {
					m.emit(steps, path, "discriminator/other", v, setTag(jsonv.NewString(key)))
				}
			}
			m.emit(steps, path, "discriminator/unknown", v, setTag(jsonv.NewString("zz_unknown")))
			m.emit(steps, path, "discriminator/non-string", v, setTag(intVal(7)))
			if v.Get(prop) != nil {
				m.emit(steps, path, "discriminator/remove", v, without(v, prop))
			}
		}
	}
	// members that belong to another variant
	for i, other := range variants.Elems {
		if i == chosen {
			continue
		}
		oi := GenInstance(other, m.res, m.rng)
		if oi == nil || oi.Kind != jsonv.Object {
			continue
		}
		os, msg := deref(other, m.res)
		if msg != "" {
			continue
		}
		// add one required member of the other variant that this one lacks
		if r := os.Get("required"); r != nil && r.Kind == jsonv.Array {
			for _, n := range r.Elems {
				if n.Kind == jsonv.String && v.Get(n.Str) == nil && oi.Get(n.Str) != nil {
					m.emit(steps, path, "sum/add-foreign:"+n.Str, v, withMember(v, n.Str, oi.Get(n.Str)))
					break
				}
			}
		}
		merged := v
		for _, mem := range oi.Members {
			if merged.Get(mem.Name) == nil {
				merged = withMember(merged, mem.Name, mem.Value)
			}
		}
		m.emit(steps, path, "sum/merge-other", v, merged)
	}
}
