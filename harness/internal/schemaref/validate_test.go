package schemaref

import (
	"errors"
	"strings"
	"testing"

	"verifharness/internal/jsonv"
)

func mustParse(t testing.TB, s string) *jsonv.Value {
	t.Helper()
	v, err := jsonv.Parse([]byte(s))
	if err != nil {
		t.Fatalf("bad JSON in test %q: %v", s, err)
	}
	return v
}

// components shared by the truth table
const tableComponents = `{
 "Int": {"type":"integer"},
 "List": {"type":"object","properties":{"v":{"type":"integer"},"next":{"$ref":"#/components/schemas/List"}},"required":["v"],"additionalProperties":false},
 "Tree": {"type":"object","properties":{"kids":{"type":"array","items":{"$ref":"#/components/schemas/Tree"}}},"required":["kids"]},
 "Cat": {"type":"object","properties":{"kind":{"type":"string"},"meow":{"type":"boolean"}},"required":["kind","meow"],"additionalProperties":false},
 "Dog": {"type":"object","properties":{"kind":{"type":"string"},"bark":{"type":"integer"}},"required":["kind","bark"],"additionalProperties":false},
 "Base": {"type":"object","properties":{"id":{"type":"integer"}},"required":["id"]},
 "Alias": {"$ref":"#/components/schemas/Int"}
}`

type triple struct {
	schema, inst string
	want         bool
	undecided    string // expected Undecided() reason ("" = decidable)
}

var truthTable = []triple{
	// ---- type
	{`{"type":"string"}`, `"a"`, true, ""},
	{`{"type":"string"}`, `1`, false, ""},
	{`{"type":"string"}`, `null`, false, ""},
	{`{"type":"integer"}`, `1`, true, ""},
	{`{"type":"integer"}`, `-0`, true, ""},
	{`{"type":"integer"}`, `1.5`, false, ""},
	{`{"type":"integer"}`, `"1"`, false, ""},
	{`{"type":"integer"}`, `true`, false, ""},
	{`{"type":"integer"}`, `1.0`, true, "spec:integer-spelling"},
	{`{"type":"integer"}`, `1e2`, true, "spec:integer-spelling"},
	{`{"type":"integer"}`, `15e-1`, false, ""},
	{`{"type":"integer"}`, `9007199254740993`, true, ""},
	{`{"type":"number"}`, `1`, true, ""},
	{`{"type":"number"}`, `1.5`, true, ""},
	{`{"type":"number"}`, `1.0`, true, ""},
	{`{"type":"number"}`, `"1.5"`, false, ""},
	{`{"type":"number"}`, `false`, false, ""},
	{`{"type":"boolean"}`, `false`, true, ""},
	{`{"type":"boolean"}`, `0`, false, ""},
	{`{"type":"boolean"}`, `"true"`, false, ""},
	{`{"type":"array"}`, `[]`, true, ""},
	{`{"type":"array"}`, `{}`, false, ""},
	{`{"type":"object"}`, `{}`, true, ""},
	{`{"type":"object"}`, `[]`, false, ""},
	{`{"type":"object"}`, `null`, false, ""},
	{`{}`, `null`, true, ""},
	{`{}`, `[1,"a",{}]`, true, ""},
	// ---- nullable
	{`{"type":"string","nullable":true}`, `null`, true, ""},
	{`{"type":"string","nullable":true}`, `"x"`, true, ""},
	{`{"type":"string","nullable":true}`, `0`, false, ""},
	{`{"type":"string","nullable":false}`, `null`, false, ""},
	{`{"type":"integer","nullable":true,"minimum":5}`, `null`, true, ""},
	{`{"type":"integer","nullable":true,"minimum":5}`, `4`, false, ""},
	{`{"type":"object","nullable":true,"required":["a"]}`, `null`, true, ""},
	{`{"type":"array","nullable":true,"minItems":1}`, `null`, true, ""},
	{`{"type":"array","nullable":true,"minItems":1}`, `[]`, false, ""},
	{`{"nullable":true}`, `null`, true, "spec:nullable-without-type"},
	{`{"nullable":true,"allOf":[{"type":"string"}]}`, `null`, false, "spec:nullable-without-type"},
	{`{"type":"string","nullable":true,"enum":["a"]}`, `null`, false, "spec:nullable-enum"},
	{`{"type":"string","nullable":true,"enum":["a",null]}`, `null`, true, ""},
	{`{"type":"array","items":{"type":"integer","nullable":true}}`, `[1,null,2]`, true, ""},
	{`{"type":"array","items":{"type":"integer"}}`, `[1,null,2]`, false, ""},
	// ---- minimum / maximum / exclusive (boolean form)
	{`{"type":"integer","minimum":3}`, `3`, true, ""},
	{`{"type":"integer","minimum":3}`, `2`, false, ""},
	{`{"type":"integer","minimum":3,"exclusiveMinimum":true}`, `3`, false, ""},
	{`{"type":"integer","minimum":3,"exclusiveMinimum":true}`, `4`, true, ""},
	{`{"type":"integer","minimum":3,"exclusiveMinimum":false}`, `3`, true, ""},
	{`{"type":"integer","maximum":3}`, `3`, true, ""},
	{`{"type":"integer","maximum":3}`, `4`, false, ""},
	{`{"type":"integer","maximum":3,"exclusiveMaximum":true}`, `3`, false, ""},
	{`{"type":"integer","maximum":3,"exclusiveMaximum":true}`, `2`, true, ""},
	{`{"type":"integer","exclusiveMaximum":true}`, `1000`, true, ""},
	{`{"type":"integer","exclusiveMinimum":true}`, `-1000`, true, ""},
	{`{"type":"number","minimum":0.5,"exclusiveMinimum":true}`, `0.5`, false, ""},
	{`{"type":"number","minimum":0.5,"exclusiveMinimum":true}`, `0.625`, true, ""},
	{`{"type":"number","maximum":-2.25}`, `-2.25`, true, ""},
	{`{"type":"number","maximum":-2.25}`, `-2.125`, false, ""},
	{`{"type":"integer","maximum":9007199254740992}`, `9007199254740993`, false, ""},
	{`{"type":"integer","maximum":9007199254740993}`, `9007199254740993`, true, ""},
	{`{"type":"number","minimum":1e400}`, `1e401`, true, "xcheck:number-not-binary64"},
	{`{"type":"number","minimum":0.1}`, `0.1`, true, "xcheck:number-not-binary64"},
	{`{"minimum":5}`, `"abc"`, true, ""},
	{`{"minimum":5}`, `4`, false, ""},
	// ---- multipleOf
	{`{"type":"integer","multipleOf":3}`, `9`, true, ""},
	{`{"type":"integer","multipleOf":3}`, `10`, false, ""},
	{`{"type":"integer","multipleOf":3}`, `0`, true, ""},
	{`{"type":"integer","multipleOf":3}`, `-9`, true, ""},
	{`{"type":"number","multipleOf":0.25}`, `0.75`, true, ""},
	{`{"type":"number","multipleOf":0.25}`, `0.8`, false, "xcheck:number-not-binary64"},
	{`{"type":"number","multipleOf":0.25}`, `0.875`, false, ""},
	{`{"type":"number","multipleOf":0.25}`, `7`, true, ""},
	{`{"type":"number","multipleOf":0.5}`, `-1.5`, true, ""},
	{`{"type":"number","multipleOf":2}`, `3.0`, false, ""},
	{`{"type":"number","multipleOf":2}`, `4.5`, false, ""},
	{`{"type":"number","multipleOf":0.1}`, `0.3`, true, "xcheck:number-not-binary64"},
	{`{"type":"number","multipleOf":0.01}`, `1.13`, true, "xcheck:number-not-binary64"},
	{`{"type":"integer","multipleOf":10}`, `9007199254740990`, true, ""},
	{`{"type":"number","multipleOf":3}`, `1e22`, false, "xcheck:multipleOf-float"},
	{`{"type":"number","multipleOf":1e-7}`, `1e100000000`, true, "xcheck:number-not-binary64"},
	{`{"multipleOf":2}`, `"x"`, true, ""},
	// ---- minLength / maxLength (code points)
	{`{"type":"string","minLength":2}`, `"ab"`, true, ""},
	{`{"type":"string","minLength":2}`, `"a"`, false, ""},
	{`{"type":"string","minLength":2}`, `"😀"`, false, ""},
	{`{"type":"string","minLength":2}`, `"😀"`, false, ""},
	{`{"type":"string","maxLength":2}`, `"😀𝄞"`, true, ""},
	{`{"type":"string","maxLength":2}`, `"éé"`, true, ""},
	{`{"type":"string","maxLength":2}`, `"abc"`, false, ""},
	{`{"type":"string","maxLength":0}`, `""`, true, ""},
	{`{"type":"string","maxLength":0}`, `" "`, false, ""},
	{`{"type":"string","minLength":1,"maxLength":1}`, `"é"`, true, ""},
	{`{"type":"string","minLength":1}`, `"\ud800"`, true, "spec:lone-surrogate"},
	{`{"maxLength":1}`, `[1,2,3]`, true, ""},
	// ---- pattern (unanchored search)
	{`{"type":"string","pattern":"foo"}`, `"a foo b"`, true, ""},
	{`{"type":"string","pattern":"foo"}`, `"fo o"`, false, ""},
	{`{"type":"string","pattern":"^[a-z]+$"}`, `"abc"`, true, ""},
	{`{"type":"string","pattern":"^[a-z]+$"}`, `"abc\n"`, false, ""},
	{`{"type":"string","pattern":"^[a-z]+$"}`, `"abC"`, false, ""},
	{`{"type":"string","pattern":"^\\d{3}$"}`, `"123"`, true, ""},
	{`{"type":"string","pattern":"^\\d{3}$"}`, `"١٢٣"`, false, ""},
	{`{"type":"string","pattern":"^.{2,4}$"}`, `"abcde"`, false, ""},
	{`{"type":"string","pattern":"^.{2,4}$"}`, `"😀"`, false, "spec:pattern-subject"},
	{`{"type":"string","pattern":"^.{2,4}$"}`, `"a\rb"`, true, "spec:pattern-subject"},
	{`{"type":"string","pattern":"^(?i)abc$"}`, `"ABC"`, true, "spec:pattern-not-portable"},
	{`{"pattern":"^x"}`, `5`, true, ""},
	// ---- items / minItems / maxItems / uniqueItems
	{`{"type":"array","items":{"type":"integer"}}`, `[1,2,3]`, true, ""},
	{`{"type":"array","items":{"type":"integer"}}`, `[1,"2",3]`, false, ""},
	{`{"type":"array","minItems":1}`, `[]`, false, ""},
	{`{"type":"array","minItems":1}`, `[null]`, true, ""},
	{`{"type":"array","maxItems":2}`, `[1,2]`, true, ""},
	{`{"type":"array","maxItems":2}`, `[1,2,3]`, false, ""},
	{`{"type":"array","uniqueItems":true}`, `[1,2,3]`, true, ""},
	{`{"type":"array","uniqueItems":true}`, `[1,2,1]`, false, ""},
	{`{"type":"array","uniqueItems":true}`, `[1,true]`, true, ""},
	{`{"type":"array","uniqueItems":true}`, `[0,false]`, true, ""},
	{`{"type":"array","uniqueItems":true}`, `[1,1.0]`, false, ""},
	{`{"type":"array","uniqueItems":true}`, `["a","A"]`, true, ""},
	{`{"type":"array","uniqueItems":true}`, `[{"a":1,"b":2},{"b":2,"a":1}]`, false, ""},
	{`{"type":"array","uniqueItems":true}`, `[[1],[true]]`, true, ""},
	{`{"type":"array","uniqueItems":true}`, `[null,null]`, false, ""},
	{`{"type":"array","uniqueItems":false}`, `[1,1]`, true, ""},
	{`{"type":"array","uniqueItems":true}`, `[]`, true, ""},
	{`{"uniqueItems":true,"minItems":3}`, `"not an array"`, true, ""},
	// ---- properties / required / additionalProperties / counts
	{`{"type":"object","properties":{"a":{"type":"integer"}}}`, `{}`, true, ""},
	{`{"type":"object","properties":{"a":{"type":"integer"}}}`, `{"a":1,"b":"free"}`, true, ""},
	{`{"type":"object","properties":{"a":{"type":"integer"}}}`, `{"a":"1"}`, false, ""},
	{`{"type":"object","properties":{"a":{"type":"integer"}},"required":["a"]}`, `{}`, false, ""},
	{`{"type":"object","properties":{"a":{"type":"integer"}},"required":["a"]}`, `{"a":null}`, false, ""},
	{`{"type":"object","properties":{"a":{"type":"integer","nullable":true}},"required":["a"]}`, `{"a":null}`, true, ""},
	{`{"type":"object","required":["ghost"]}`, `{"ghost":false}`, true, ""},
	{`{"type":"object","required":["ghost"]}`, `{"a":1}`, false, ""},
	{`{"type":"object","required":["ghost"],"additionalProperties":false}`, `{"ghost":1}`, false, ""},
	{`{"type":"object","properties":{"a":{}},"additionalProperties":false}`, `{"a":[1]}`, true, ""},
	{`{"type":"object","properties":{"a":{}},"additionalProperties":false}`, `{"a":1,"b":2}`, false, ""},
	{`{"type":"object","properties":{"a":{}},"additionalProperties":true}`, `{"a":1,"b":2}`, true, ""},
	{`{"type":"object","properties":{"a":{}},"additionalProperties":{"type":"string"}}`, `{"a":1,"b":"s"}`, true, ""},
	{`{"type":"object","properties":{"a":{}},"additionalProperties":{"type":"string"}}`, `{"a":1,"b":2}`, false, ""},
	{`{"type":"object","additionalProperties":{"type":"integer","minimum":0}}`, `{"x":0,"y":7}`, true, ""},
	{`{"type":"object","additionalProperties":{"type":"integer","minimum":0}}`, `{"x":0,"y":-1}`, false, ""},
	{`{"type":"object","minProperties":2}`, `{"a":1}`, false, ""},
	{`{"type":"object","minProperties":2}`, `{"a":1,"b":2}`, true, ""},
	{`{"type":"object","maxProperties":1}`, `{"a":1,"b":2}`, false, ""},
	{`{"type":"object","maxProperties":1}`, `{"a":1}`, true, ""},
	{`{"type":"object","maxProperties":0}`, `{}`, true, ""},
	{`{"type":"object"}`, `{"a":1,"a":2}`, true, "spec:duplicate-member-names"},
	{`{"required":["a"],"properties":{"a":{"type":"string"}}}`, `[1]`, true, ""},
	{`{"type":"object","properties":{"A":{"type":"string"}},"additionalProperties":false}`, `{"a":"x"}`, false, ""},
	// ---- enum
	{`{"type":"string","enum":["a","b"]}`, `"b"`, true, ""},
	{`{"type":"string","enum":["a","b"]}`, `"c"`, false, ""},
	{`{"type":"string","enum":["a","b"]}`, `"A"`, false, ""},
	{`{"type":"integer","enum":[1,2,3]}`, `2`, true, ""},
	{`{"type":"integer","enum":[1,2,3]}`, `4`, false, ""},
	{`{"enum":[1]}`, `true`, false, ""},
	{`{"enum":[true]}`, `1`, false, ""},
	{`{"enum":[1]}`, `1.0`, true, ""},
	{`{"enum":[[1,2],{"a":null}]}`, `{"a":null}`, true, ""},
	{`{"enum":[[1,2],{"a":null}]}`, `[2,1]`, false, ""},
	{`{"type":"string","enum":["1"]}`, `1`, false, ""},
	// ---- allOf / anyOf / oneOf / not
	{`{"allOf":[{"type":"integer"},{"minimum":3}]}`, `3`, true, ""},
	{`{"allOf":[{"type":"integer"},{"minimum":3}]}`, `2`, false, ""},
	{`{"allOf":[{"$ref":"#/components/schemas/Base"},{"type":"object","properties":{"x":{"type":"string"}},"required":["x"]}]}`, `{"id":1,"x":"s"}`, true, ""},
	{`{"allOf":[{"$ref":"#/components/schemas/Base"},{"type":"object","properties":{"x":{"type":"string"}},"required":["x"]}]}`, `{"x":"s"}`, false, ""},
	{`{"allOf":[{"$ref":"#/components/schemas/Base"},{"type":"object","properties":{"x":{"type":"string"}},"required":["x"]}]}`, `{"id":"1","x":"s"}`, false, ""},
	{`{"anyOf":[{"type":"string"},{"type":"integer"}]}`, `"s"`, true, ""},
	{`{"anyOf":[{"type":"string"},{"type":"integer"}]}`, `1.5`, false, ""},
	{`{"anyOf":[{"type":"number"},{"type":"integer"}]}`, `1`, true, ""},
	{`{"oneOf":[{"type":"number"},{"type":"integer"}]}`, `1`, false, ""},
	{`{"oneOf":[{"type":"number"},{"type":"integer"}]}`, `1.5`, true, ""},
	{`{"oneOf":[{"type":"string"},{"type":"boolean"},{"type":"array"}]}`, `[]`, true, ""},
	{`{"oneOf":[{"type":"string"},{"type":"boolean"},{"type":"array"}]}`, `{}`, false, ""},
	{`{"oneOf":[{"type":"string","nullable":true},{"type":"integer","nullable":true}]}`, `null`, false, ""},
	{`{"oneOf":[{"type":"string","nullable":true},{"type":"integer"}]}`, `null`, true, ""},
	{`{"oneOf":[{"type":"integer","multipleOf":3},{"type":"integer","multipleOf":5}]}`, `15`, false, ""},
	{`{"oneOf":[{"type":"integer","multipleOf":3},{"type":"integer","multipleOf":5}]}`, `10`, true, ""},
	{`{"oneOf":[{"$ref":"#/components/schemas/Cat"},{"$ref":"#/components/schemas/Dog"}]}`, `{"kind":"x","meow":true}`, true, ""},
	{`{"oneOf":[{"$ref":"#/components/schemas/Cat"},{"$ref":"#/components/schemas/Dog"}]}`, `{"kind":"x","meow":true,"bark":1}`, false, ""},
	{`{"oneOf":[{"$ref":"#/components/schemas/Cat"},{"$ref":"#/components/schemas/Dog"}]}`, `{"kind":"x"}`, false, ""},
	{`{"oneOf":[{"$ref":"#/components/schemas/Cat"},{"$ref":"#/components/schemas/Dog"}],"discriminator":{"propertyName":"kind","mapping":{"c":"#/components/schemas/Cat","d":"#/components/schemas/Dog"}}}`, `{"kind":"c","meow":true}`, true, ""},
	{`{"oneOf":[{"$ref":"#/components/schemas/Cat"},{"$ref":"#/components/schemas/Dog"}],"discriminator":{"propertyName":"kind","mapping":{"c":"#/components/schemas/Cat","d":"#/components/schemas/Dog"}}}`, `{"kind":"d","meow":true}`, true, "spec:discriminator"},
	{`{"oneOf":[{"$ref":"#/components/schemas/Cat"},{"$ref":"#/components/schemas/Dog"}],"discriminator":{"propertyName":"kind"}}`, `{"kind":"Dog","bark":3}`, true, ""},
	{`{"oneOf":[{"$ref":"#/components/schemas/Cat"},{"$ref":"#/components/schemas/Dog"}],"discriminator":{"propertyName":"kind"}}`, `{"kind":"Dog","bark":"3"}`, false, ""},
	{`{"not":{"type":"string"}}`, `1`, true, ""},
	{`{"not":{"type":"string"}}`, `"s"`, false, ""},
	// ---- $ref, recursion, siblings ignored
	{`{"$ref":"#/components/schemas/Int"}`, `5`, true, ""},
	{`{"$ref":"#/components/schemas/Int"}`, `"5"`, false, ""},
	{`{"$ref":"#/components/schemas/Alias"}`, `5`, true, ""},
	{`{"$ref":"#/components/schemas/Int","type":"string","minimum":100}`, `5`, true, ""},
	{`{"$ref":"#/components/schemas/List"}`, `{"v":1,"next":{"v":2,"next":{"v":3}}}`, true, ""},
	{`{"$ref":"#/components/schemas/List"}`, `{"v":1,"next":{"v":2,"next":{"w":3}}}`, false, ""},
	{`{"$ref":"#/components/schemas/List"}`, `{"v":1,"next":null}`, false, ""},
	{`{"$ref":"#/components/schemas/Tree"}`, `{"kids":[{"kids":[]},{"kids":[{"kids":[]}]}]}`, true, ""},
	{`{"$ref":"#/components/schemas/Tree"}`, `{"kids":[{"kids":[]},{"kids":[{}]}]}`, false, ""},
	// ---- format and unknown keywords are ignored
	{`{"type":"string","format":"date-time"}`, `"not a date"`, true, ""},
	{`{"type":"integer","format":"int32"}`, `4294967296`, true, ""},
	{`{"type":"string","x-whatever":{"minLength":9},"example":5}`, `"s"`, true, ""},
	{`{"type":"object","patternProperties":{"^a":{"type":"integer"}}}`, `{"a":"s"}`, true, ""},
	{`{"type":"array","additionalItems":false,"items":{"type":"integer"}}`, `[1,2]`, true, ""},
	{`{"type":"object","properties":{"nullable":{"type":"boolean"},"type":{"type":"string"}}}`, `{"nullable":true,"type":"t"}`, true, ""},
	{`{"type":"object","properties":{"nullable":{"type":"boolean"},"type":{"type":"string"}}}`, `{"nullable":null}`, false, ""},
}

func TestTruthTable(t *testing.T) {
	compsV := mustParse(t, tableComponents)
	comps := map[string]*jsonv.Value{}
	for _, m := range compsV.Members {
		comps[m.Name] = m.Value
	}
	res := MapResolver(comps)
	if len(truthTable) < 80 {
		t.Fatalf("truth table has only %d triples", len(truthTable))
	}
	var xc []XCase
	var xi []int
	for i, tr := range truthTable {
		s, inst := mustParse(t, tr.schema), mustParse(t, tr.inst)
		ok, why := Validate(s, inst, res)
		if strings.HasPrefix(why, SchemaErrorPrefix) {
			t.Errorf("#%d %s / %s: %s", i, tr.schema, tr.inst, why)
			continue
		}
		if ok != tr.want {
			t.Errorf("#%d Validate(%s, %s) = %v (%s), want %v", i, tr.schema, tr.inst, ok, why, tr.want)
		}
		if u := Undecided(s, inst, res); u != tr.undecided {
			t.Errorf("#%d Undecided(%s, %s) = %q, want %q", i, tr.schema, tr.inst, u, tr.undecided)
		} else if u == "" {
			xc = append(xc, XCase{Schema: s, Components: comps, Instance: inst})
			xi = append(xi, i)
		}
	}
	got, err := XCheck(xc)
	if err != nil {
		if errors.Is(err, ErrNoPython) {
			t.Logf("python cross-check skipped: %v", err)
			return
		}
		t.Fatal(err)
	}
	bad := 0
	for k, i := range xi {
		if got[k] != truthTable[i].want {
			bad++
			t.Errorf("#%d python says %v, table says %v: %s / %s", i, got[k], truthTable[i].want, truthTable[i].schema, truthTable[i].inst)
		}
	}
	t.Logf("truth table: %d triples, %d decidable ones cross-checked with python-jsonschema, %d disagreements", len(truthTable), len(xc), bad)
}

func TestSchemaErrors(t *testing.T) {
	for _, c := range []struct{ schema, inst string }{
		{`{"$ref":"#/components/schemas/Missing"}`, `1`},
		{`{"type":["string","null"]}`, `1`},
		{`{"type":"file"}`, `1`},
		{`{"type":"integer","minimum":1,"exclusiveMinimum":0}`, `1`},
		{`{"type":"string","pattern":"(?=x)"}`, `"x"`},
		{`{"type":"integer","multipleOf":0}`, `1`},
		{`{"$ref":"#/components/schemas/Loop"}`, `1`},
		{`{"$ref":"#/components/schemas/AllLoop"}`, `1`},
	} {
		comps := map[string]*jsonv.Value{
			"Loop":    mustParse(t, `{"$ref":"#/components/schemas/Loop"}`),
			"AllLoop": mustParse(t, `{"allOf":[{"$ref":"#/components/schemas/AllLoop"}]}`),
		}
		ok, why := Validate(mustParse(t, c.schema), mustParse(t, c.inst), MapResolver(comps))
		if ok || !strings.HasPrefix(why, SchemaErrorPrefix) {
			t.Errorf("Validate(%s, %s) = %v, %q; want a schema error", c.schema, c.inst, ok, why)
		}
	}
}

func TestNumberHelpers(t *testing.T) {
	n := func(s string) *jsonv.Num { return jsonv.MustNumber(s).Num }
	for _, c := range []struct {
		a, b string
		want int
	}{
		{"1", "2", -1}, {"2", "1", 1}, {"1.0", "1", 0}, {"-0", "0", 0}, {"-1", "1", -1}, {"-2", "-1", -1},
		{"1e100000000000", "1e99999999999", 1}, {"-1e100000000000", "1", -1}, {"123e-2", "1.23", 0}, {"1.24", "123e-2", 1},
		{"99", "1e2", -1}, {"100", "1e2", 0}, {"0.001", "1e-3", 0}, {"9e-4", "1e-3", -1}, {"-9e-4", "-1e-3", 1},
	} {
		if got := CmpNum(n(c.a), n(c.b)); got != c.want {
			t.Errorf("CmpNum(%s,%s)=%d want %d", c.a, c.b, got, c.want)
		}
	}
	for _, c := range []struct {
		x, m string
		want bool
	}{
		{"0.3", "0.1", true}, {"0.35", "0.1", false}, {"1e100000000", "3", false}, {"3e100000000", "3", true},
		{"1e100000000", "0.25", true}, {"1e-100000000", "1", false}, {"0", "7", true}, {"4.5", "1.5", true}, {"1e2", "8", false}, {"1e3", "8", true},
	} {
		if got := IsMultiple(n(c.x), n(c.m)); got != c.want {
			t.Errorf("IsMultiple(%s,%s)=%v want %v", c.x, c.m, got, c.want)
		}
	}
	for _, c := range []struct {
		s    string
		want bool
	}{{"0.5", true}, {"0.1", false}, {"9007199254740993.0", false}, {"9007199254740992.0", true}, {"1e22", true}, {"1e23", false}, {"1e400", false}, {"0.0009765625", true}, {"-2.75", true}} {
		if got := binary64Exact(n(c.s)); got != c.want {
			t.Errorf("binary64Exact(%s)=%v want %v", c.s, got, c.want)
		}
	}
	if !IntegerSpelling(mustParse(t, `[1,-2,1.5,{"a":300}]`)) || IntegerSpelling(mustParse(t, `[1,{"a":3e2}]`)) || IntegerSpelling(mustParse(t, `[1.0]`)) {
		t.Error("IntegerSpelling")
	}
}
