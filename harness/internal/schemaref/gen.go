package schemaref

import (
	"math/big"
	"sort"
	"strconv"
	"strings"

	"verifharness/internal/ev"
	"verifharness/internal/jsonv"
)

// Feature names one construct GenSchema may use.
type Feature uint32

const (
	FRef                Feature = 1 << iota // $ref to a component
	FRecursion                              // recursive components (list, tree, mutual, recursive sum)
	FOneOf                                  // oneOf sums
	FAnyOf                                  // anyOf sums
	FDiscriminator                          // discriminator + mapping on object sums
	FAllOf                                  // allOf of object schemas
	FNullable                               // nullable: true
	FEnum                                   // enum on string / integer
	FPattern                                // pattern (from Patterns)
	FLength                                 // minLength / maxLength
	FBounds                                 // minimum / maximum / exclusive*
	FMultipleOf                             // multipleOf
	FNumber                                 // type: number (non-integer values)
	FItemCounts                             // minItems / maxItems
	FUniqueItems                            // uniqueItems
	FAdditional                             // additionalProperties: false / true / schema
	FPropCounts                             // minProperties / maxProperties
	FRequiredUndeclared                     // required names that are not declared under properties
	FWide                                   // objects with >= 9 / >= 17 properties at random
	FBigInt                                 // integer bounds near ±2^31 and ±2^53
)

// GenOptions steers GenSchema. The zero value means: depth 3, every feature.
type GenOptions struct {
	// Depth bounds the nesting of arrays/objects below the root (default 3).
	Depth int
	// ForceWide > 0 makes the root an object with at least that many
	// properties, most of them required (9 and 17 cross the byte boundaries of
	// a required-bitmask).
	ForceWide int
	// RootObject makes the root an object schema (or an allOf / sum of objects).
	RootObject bool
	// Exclude lists features that must not appear.
	Exclude Feature
}

func (o GenOptions) has(f Feature) bool { return o.Exclude&f == 0 }

type class uint8

const (
	cString class = iota
	cInteger
	cNumber
	cBoolean
	cArray
	cObject
	cSum
)

// info is what the generator remembers about a schema it built.
type info struct {
	class    class
	nullable bool
	props    []string // declared property names (object, allOf)
	open     bool     // plain object without additionalProperties keyword and without count bounds
	distinct int      // lower bound on the number of distinct valid instances (capped at 6)
	height   int      // nesting levels below this schema
}

type sgen struct {
	rng   *ev.Rand
	opt   GenOptions
	comps map[string]*jsonv.Value
	infos map[string]info
	order []string
	n     int
}

// GenSchema returns a random components/schemas map of the supported fragment
// and the name of the root schema in it. Everything in the map is reachable
// from the root. By construction (see the package tests):
//
//   - oneOf/anyOf variants are pairwise disjoint: different JSON types (never
//     integer next to number), or objects with additionalProperties:false and a
//     required property whose name no other variant declares (optionally with a
//     discriminator whose mapping points to the variant components);
//   - enum only on string/integer, 1..5 distinct values, never with nullable;
//   - bounds are satisfiable with at least three admissible values (two
//     multiples when multipleOf is present); all numbers are dyadic rationals,
//     integers within ±2^53;
//   - item/property/length bounds are consistent, item counts <= 5;
//   - property names are identifiers that stay distinct when compared without
//     case and underscores, none is a Go keyword;
//   - allOf only over object schemas with disjoint property sets, none of them
//     closed (optionally the first one a $ref);
//   - uniqueItems only over non-nullable string/integer/boolean items;
//   - recursive components have a base case;
//   - $ref never has siblings; nullable only next to type;
//   - every schema admits an instance (checked with GenInstance + Validate).
func GenSchema(rng *ev.Rand, opt GenOptions) (schemas map[string]*jsonv.Value, root string) {
	if opt.Depth <= 0 {
		opt.Depth = 3
	}
	for attempt := 0; ; attempt++ {
		g := &sgen{rng: rng.Fork("schema" + strconv.Itoa(attempt)), opt: opt, comps: map[string]*jsonv.Value{}, infos: map[string]info{}}
		if attempt >= 20 {
			// cannot happen with the constructions below; keep the contract anyway
			g.comps = map[string]*jsonv.Value{"Root": typed("object").val()}
			return g.comps, "Root"
		}
		g.comps["Root"] = nil // reserve
		var s *jsonv.Value
		switch {
		case opt.ForceWide > 0:
			s, _ = g.object(0, objOpts{wide: opt.ForceWide, noNullable: true})
		case opt.RootObject:
			s, _ = g.objectLike(0)
		default:
			if g.rng.Chance(55) {
				s, _ = g.objectLike(0)
			} else {
				s, _ = g.schema(0, false)
			}
		}
		if r := s.Get("$ref"); r != nil {
			// keep the root a real schema: inline the target of a top-level $ref
			t, _ := MapResolver(g.comps)(r.Str)
			s = t
		}
		g.comps["Root"] = s
		g.prune("Root")
		if admits(g.comps, "Root", g.rng.Fork("admit")) {
			return g.comps, "Root"
		}
	}
}

// admits: the root has a valid instance that GenInstance finds.
func admits(comps map[string]*jsonv.Value, root string, rng *ev.Rand) bool {
	res := MapResolver(comps)
	for i := 0; i < 3; i++ {
		inst := GenInstance(comps[root], res, rng)
		if inst == nil {
			return false
		}
	}
	return true
}

// prune drops components that are not reachable from root.
func (g *sgen) prune(root string) {
	seen := map[string]bool{}
	var visit func(name string)
	visit = func(name string) {
		if seen[name] {
			return
		}
		seen[name] = true
		if s := g.comps[name]; s != nil {
			s.Walk(func(v *jsonv.Value) {
				if v.Kind == jsonv.Object {
					if r := v.Get("$ref"); r != nil && r.Kind == jsonv.String && strings.HasPrefix(r.Str, RefPrefix) {
						visit(r.Str[len(RefPrefix):])
					}
				}
				// discriminator mapping values
				if v.Kind == jsonv.String && strings.HasPrefix(v.Str, RefPrefix) {
					visit(v.Str[len(RefPrefix):])
				}
			})
		}
	}
	visit(root)
	for name := range g.comps {
		if !seen[name] {
			delete(g.comps, name)
		}
	}
}

// ---------------------------------------------------------------- names

var goKeywords = map[string]bool{
	"break": true, "case": true, "chan": true, "const": true, "continue": true, "default": true, "defer": true,
	"else": true, "fallthrough": true, "for": true, "func": true, "go": true, "goto": true, "if": true, "import": true,
	"interface": true, "map": true, "package": true, "range": true, "return": true, "select": true, "struct": true,
	"switch": true, "type": true, "var": true,
}

var propWords = []string{
	"id", "name", "value", "count", "size", "label", "tag", "color", "width", "height", "depth", "mass", "price",
	"total", "index", "code", "city", "street", "zip", "email", "phone", "age", "score", "level", "rank", "title",
	"body", "note", "data", "item", "flag", "mode", "state", "status", "owner", "group", "role", "key", "token",
	"hash", "path", "host", "port", "user", "first_name", "last_name", "created_at", "updatedAt", "x", "y", "z",
	"a1", "b2", "c3", "Alpha", "beta_gamma", "deltaEpsilon", "v2_config", "is_active", "hasChildren", "URL_ref",
	"n0", "class_", "Qty", "unit_price", "lat", "lon",
}

var enumWords = []string{
	"red", "green", "blue", "dark_blue", "small", "medium", "large", "XL", "v1", "v2", "on", "off", "auto", "A", "B",
	"c_3", "north", "south", "east", "west", "open", "closed", "pending", "Done",
}

var compWords = []string{"Node", "Item", "Pet", "Shape", "Order", "User", "Event", "Point", "Leaf", "Entry", "Config", "Record", "Cell", "Doc", "Part"}

var discNames = []string{"kind", "object_type", "variant", "dtype", "shape_kind"}

func normName(s string) string { return strings.ToLower(strings.ReplaceAll(s, "_", "")) }

// nameSet hands out identifiers that are pairwise distinct after normName.
type nameSet struct {
	used map[string]bool
}

func newNameSet(taken ...string) *nameSet {
	n := &nameSet{used: map[string]bool{}}
	for _, t := range taken {
		n.used[normName(t)] = true
	}
	return n
}

func (n *nameSet) free(s string) bool {
	k := normName(s)
	return k != "" && !n.used[k] && !goKeywords[s] && !goKeywords[k]
}

func (n *nameSet) take(rng *ev.Rand, words []string) string {
	for try := 0; ; try++ {
		w := ev.Pick(rng, words)
		switch {
		case try > 3 || rng.Chance(12):
			w += strconv.Itoa(rng.Intn(90) + 2)
		case rng.Chance(8):
			w = w + "_" + ev.Pick(rng, words)
		case rng.Chance(6):
			w = strings.ToUpper(w[:1]) + w[1:]
		}
		if n.free(w) {
			n.used[normName(w)] = true
			return w
		}
	}
}

func (g *sgen) newComp(word string) string {
	g.n++
	if word == "" {
		word = ev.Pick(g.rng, compWords)
	}
	name := "T" + strconv.Itoa(g.n) + word
	g.comps[name] = nil // reserve
	return name
}

func (g *sgen) define(name string, s *jsonv.Value, in info) {
	g.comps[name] = s
	g.infos[name] = in
	g.order = append(g.order, name)
}

// ---------------------------------------------------------------- dispatcher

type choice struct {
	w int
	f func() (*jsonv.Value, info)
}

func (g *sgen) pick(cs []choice) (*jsonv.Value, info) {
	total := 0
	for _, c := range cs {
		total += c.w
	}
	r := g.rng.Intn(total)
	for _, c := range cs {
		if r < c.w {
			return c.f()
		}
		r -= c.w
	}
	return cs[len(cs)-1].f()
}

func (g *sgen) numberAllowed() int {
	if g.opt.has(FNumber) {
		return 9
	}
	return 0
}

// schema returns any schema that nests at most Depth-d further levels.
func (g *sgen) schema(d int, noNullable bool) (*jsonv.Value, info) {
	cs := []choice{
		{18, func() (*jsonv.Value, info) { return g.stringSchema(noNullable) }},
		{16, func() (*jsonv.Value, info) { return g.integerSchema(noNullable) }},
		{g.numberAllowed(), func() (*jsonv.Value, info) { return g.numberSchema(noNullable) }},
		{6, func() (*jsonv.Value, info) { return g.booleanSchema(noNullable) }},
	}
	if d < g.opt.Depth {
		cs = append(cs,
			choice{13, func() (*jsonv.Value, info) { return g.array(d, noNullable) }},
			choice{18, func() (*jsonv.Value, info) { return g.object(d, objOpts{noNullable: noNullable}) }},
		)
		if g.opt.has(FOneOf) || g.opt.has(FAnyOf) {
			cs = append(cs, choice{8, func() (*jsonv.Value, info) { return g.sum(d) }})
		}
		if g.opt.has(FAllOf) {
			cs = append(cs, choice{4, func() (*jsonv.Value, info) { return g.allOf(d) }})
		}
	}
	if g.opt.has(FRef) {
		cs = append(cs, choice{9, func() (*jsonv.Value, info) { return g.ref(d, noNullable) }})
	}
	return g.pick(cs)
}

// objectLike returns an object, an allOf of objects, an object sum or a $ref
// to an object component.
func (g *sgen) objectLike(d int) (*jsonv.Value, info) {
	cs := []choice{{70, func() (*jsonv.Value, info) { return g.object(d, objOpts{noNullable: true}) }}}
	if g.opt.has(FAllOf) {
		cs = append(cs, choice{10, func() (*jsonv.Value, info) { return g.allOf(d) }})
	}
	if g.opt.has(FOneOf) || g.opt.has(FAnyOf) {
		cs = append(cs, choice{12, func() (*jsonv.Value, info) { return g.objectSum(d) }})
	}
	if g.opt.has(FRef) && g.opt.has(FRecursion) && d < g.opt.Depth {
		cs = append(cs, choice{8, func() (*jsonv.Value, info) { return g.recursive(d) }})
	}
	return g.pick(cs)
}

// ofClass returns a non-nullable schema of the given JSON class.
func (g *sgen) ofClass(c class, d int) (*jsonv.Value, info) {
	switch c {
	case cString:
		return g.stringSchema(true)
	case cInteger:
		return g.integerSchema(true)
	case cNumber:
		return g.numberSchema(true)
	case cBoolean:
		return g.booleanSchema(true)
	case cArray:
		return g.array(d, true)
	}
	return g.object(d, objOpts{noNullable: true})
}

func (g *sgen) scalar(noNullable bool) (*jsonv.Value, info) {
	return g.pick([]choice{
		{30, func() (*jsonv.Value, info) { return g.stringSchema(noNullable) }},
		{30, func() (*jsonv.Value, info) { return g.integerSchema(noNullable) }},
		{g.numberAllowed() + 3*g.numberAllowed()/9, func() (*jsonv.Value, info) { return g.numberSchema(noNullable) }},
		{10, func() (*jsonv.Value, info) { return g.booleanSchema(noNullable) }},
	})
}

func (g *sgen) maybeNullable(o *ob, in *info, noNullable bool) {
	if !noNullable && g.opt.has(FNullable) && g.rng.Chance(12) {
		o.set("nullable", jsonv.NewBool(true))
		in.nullable = true
	}
}

// ---------------------------------------------------------------- scalars

func (g *sgen) booleanSchema(noNullable bool) (*jsonv.Value, info) {
	o := typed("boolean")
	in := info{class: cBoolean, distinct: 2}
	g.maybeNullable(o, &in, noNullable)
	return o.val(), in
}

func (g *sgen) stringSchema(noNullable bool) (*jsonv.Value, info) {
	o := typed("string")
	in := info{class: cString, distinct: 6}
	r := g.rng.Intn(100)
	switch {
	case r < 14 && g.opt.has(FEnum):
		n := 1 + g.rng.Intn(5)
		ns := newNameSet()
		vals := make([]string, n)
		for i := range vals {
			vals[i] = ns.take(g.rng, enumWords)
		}
		o.set("enum", strArray(vals))
		in.distinct = n
		return o.val(), in
	case r < 34 && g.opt.has(FPattern):
		pc := ev.Pick(g.rng, Patterns)
		o.set("pattern", jsonv.NewString(pc.Pattern))
		in.distinct = len(pc.Matching)
		if g.opt.has(FLength) && g.rng.Chance(30) {
			// bounds around one matching example
			ex := runeLen(ev.Pick(g.rng, pc.Matching))
			lo, hi := ex-g.rng.Intn(3), ex+g.rng.Intn(4)
			if lo < 0 {
				lo = 0
			}
			if g.rng.Chance(70) {
				o.set("minLength", intVal(int64(lo)))
			} else {
				lo = 0
			}
			if g.rng.Chance(70) {
				o.set("maxLength", intVal(int64(hi)))
			} else {
				hi = 1 << 30
			}
			in.distinct = 0
			for _, m := range pc.Matching {
				if l := runeLen(m); l >= lo && l <= hi {
					in.distinct++
				}
			}
		}
	case r < 70 && g.opt.has(FLength):
		lo := g.rng.Intn(5)
		hi := lo + g.rng.Intn(9)
		switch g.rng.Intn(4) {
		case 0:
			o.set("minLength", intVal(int64(lo)))
		case 1:
			o.set("maxLength", intVal(int64(hi)))
			if hi == 0 {
				in.distinct = 1
			}
		default:
			o.set("minLength", intVal(int64(lo)))
			o.set("maxLength", intVal(int64(hi)))
			if hi == 0 {
				in.distinct = 1
			}
		}
	}
	g.maybeNullable(o, &in, noNullable)
	return o.val(), in
}

const maxSafe = int64(1) << 53

func (g *sgen) exclusive(o *ob, kw string) {
	switch r := g.rng.Intn(100); {
	case r < 25:
		o.set(kw, jsonv.NewBool(true))
	case r < 35:
		o.set(kw, jsonv.NewBool(false))
	}
}

func (g *sgen) integerSchema(noNullable bool) (*jsonv.Value, info) {
	o := typed("integer")
	in := info{class: cInteger, distinct: 3}
	if g.opt.has(FEnum) && g.rng.Chance(12) {
		n := 1 + g.rng.Intn(5)
		seen := map[int64]bool{}
		var vals []*jsonv.Value
		for len(vals) < n {
			v := int64(g.rng.Intn(41) - 10)
			if g.rng.Chance(10) {
				v = int64(g.rng.Intn(3)-1) * (int64(1)<<31 - int64(g.rng.Intn(2)))
			}
			if !seen[v] {
				seen[v] = true
				vals = append(vals, intVal(v))
			}
		}
		o.set("enum", jsonv.NewArray(vals...))
		in.distinct = n
		return o.val(), in
	}
	m := int64(0)
	if g.opt.has(FMultipleOf) && g.rng.Chance(20) {
		m = ev.Pick(g.rng, []int64{2, 3, 5, 10})
		in.distinct = 2
	}
	if g.opt.has(FBounds) && (m > 0 || g.rng.Chance(65)) {
		step := m
		if step == 0 {
			step = 1
		}
		var lo int64
		switch r := g.rng.Intn(100); {
		case r < 70 || !g.opt.has(FBigInt):
			lo = int64(g.rng.Intn(101)-50) * step
		case r < 80:
			lo = ((int64(1)<<31 - 20 + int64(g.rng.Intn(15))) / step) * step
		case r < 88:
			lo = ((-(int64(1) << 31) - 8 + int64(g.rng.Intn(15))) / step) * step
		case r < 94:
			lo = ((maxSafe - 100 + int64(g.rng.Intn(40))) / step) * step
		default:
			lo = -maxSafe + int64(g.rng.Intn(8))
			lo = (lo/step)*step + 0
			if lo < -maxSafe {
				lo += step
			}
		}
		span := step*int64(4+g.rng.Intn(6)) + int64(g.rng.Intn(int(step)))
		hi := lo + span
		if hi > maxSafe {
			hi = maxSafe
			lo = hi - span
		}
		style := g.rng.Intn(100)
		if style < 70 {
			o.set("minimum", intVal(lo))
			if g.opt.has(FBounds) {
				g.exclusive(o, "exclusiveMinimum")
			}
		}
		if style >= 35 {
			o.set("maximum", intVal(hi))
			g.exclusive(o, "exclusiveMaximum")
		}
	}
	if m > 0 {
		o.set("multipleOf", intVal(m))
	}
	g.maybeNullable(o, &in, noNullable)
	return o.val(), in
}

func (g *sgen) numberSchema(noNullable bool) (*jsonv.Value, info) {
	o := typed("number")
	in := info{class: cNumber, distinct: 3}
	var m *big.Rat
	if g.opt.has(FMultipleOf) && g.rng.Chance(22) {
		m = ev.Pick(g.rng, []*big.Rat{big.NewRat(1, 4), big.NewRat(1, 2), big.NewRat(2, 1), big.NewRat(3, 1), big.NewRat(5, 1), big.NewRat(10, 1)})
		in.distinct = 2
	}
	if g.opt.has(FBounds) && (m != nil || g.rng.Chance(65)) {
		var lo, hi *big.Rat
		if m != nil {
			lo = new(big.Rat).Mul(m, big.NewRat(int64(g.rng.Intn(81)-40), 1))
			hi = new(big.Rat).Add(lo, new(big.Rat).Mul(m, big.NewRat(int64(4+g.rng.Intn(5)), 1)))
			if g.rng.Chance(40) { // a bound that is not itself a multiple
				hi.Add(hi, big.NewRat(1, 8))
			}
			if g.rng.Chance(30) {
				lo.Sub(lo, big.NewRat(1, 8))
			}
		} else {
			lo = eighths(int64(g.rng.Intn(1601) - 800))
			if g.rng.Chance(40) {
				lo = big.NewRat(int64(g.rng.Intn(201)-100), 1)
			}
			hi = new(big.Rat).Add(lo, eighths(int64(4+g.rng.Intn(200))))
		}
		style := g.rng.Intn(100)
		if style < 70 {
			o.set("minimum", ratVal(lo))
			g.exclusive(o, "exclusiveMinimum")
		}
		if style >= 35 {
			o.set("maximum", ratVal(hi))
			g.exclusive(o, "exclusiveMaximum")
		}
	}
	if m != nil {
		o.set("multipleOf", ratVal(m))
	}
	g.maybeNullable(o, &in, noNullable)
	return o.val(), in
}

// ---------------------------------------------------------------- arrays

// GenParamSchema returns a schema fit for a parameter: a non-nullable scalar schema or an array of
// non-nullable scalars, with the same constraint keywords as the body grammar.
func GenParamSchema(rng *ev.Rand, opt GenOptions) *jsonv.Value {
	g := &sgen{rng: rng, opt: opt, comps: map[string]*jsonv.Value{}, infos: map[string]info{}}
	if rng.Chance(35) {
		items, ii := g.scalar(true)
		s, _ := g.arrayOf(items, ii, true)
		return s
	}
	s, _ := g.scalar(true)
	return s
}

func (g *sgen) array(d int, noNullable bool) (*jsonv.Value, info) {
	items, ii := g.schema(d+1, false)
	return g.arrayOf(items, ii, noNullable)
}

func (g *sgen) arrayOf(items *jsonv.Value, ii info, noNullable bool) (*jsonv.Value, info) {
	o := typed("array")
	o.set("items", items)
	in := info{class: cArray, distinct: 6, height: ii.height + 1}
	unique := g.opt.has(FUniqueItems) && !ii.nullable && (ii.class == cString || ii.class == cInteger || ii.class == cBoolean) && g.rng.Chance(35)
	lo, hi := 0, 5
	if g.opt.has(FItemCounts) && g.rng.Chance(50) {
		lo = g.rng.Intn(4)
		if unique && lo > ii.distinct {
			lo = ii.distinct
		}
		if unique && lo > 2 {
			lo = 2
		}
		hi = lo + g.rng.Intn(6-lo)
		if hi == 0 {
			hi = 1
		}
		switch g.rng.Intn(4) {
		case 0:
			o.set("minItems", intVal(int64(lo)))
		case 1:
			o.set("maxItems", intVal(int64(hi)))
		default:
			o.set("minItems", intVal(int64(lo)))
			o.set("maxItems", intVal(int64(hi)))
		}
	}
	if unique {
		o.set("uniqueItems", jsonv.NewBool(true))
	} else if g.opt.has(FUniqueItems) && g.rng.Chance(5) {
		o.set("uniqueItems", jsonv.NewBool(false))
	}
	g.maybeNullable(o, &in, noNullable)
	return o.val(), in
}

// ---------------------------------------------------------------- objects

type fixedProp struct {
	name     string
	schema   *jsonv.Value
	required bool
}

type objOpts struct {
	names      *nameSet    // shared allocator (sum variants, allOf members)
	fixed      []fixedProp // properties the caller insists on
	closed     bool        // additionalProperties: false
	open       bool        // no additionalProperties keyword, no count bounds, no undeclared required
	wide       int         // at least this many properties
	noNullable bool
	maxProps   int // upper bound on the random properties (0 = default)
}

func (g *sgen) object(d int, oo objOpts) (*jsonv.Value, info) {
	names := oo.names
	if names == nil {
		names = newNameSet()
	}
	type prop struct {
		name   string
		schema *jsonv.Value
		req    bool
	}
	var props []prop
	height := 0
	for _, f := range oo.fixed {
		props = append(props, prop{f.name, f.schema, f.required})
		height = 1 // fixed properties are scalars or references the caller accounts for
	}
	n := 0
	switch r := g.rng.Intn(100); {
	case r < 8:
		n = 0
	case r < 70:
		n = 1 + g.rng.Intn(3)
	default:
		n = 3 + g.rng.Intn(4)
	}
	if oo.maxProps > 0 && n > oo.maxProps {
		n = oo.maxProps
	}
	wide := oo.wide
	if wide == 0 && g.opt.has(FWide) && !oo.open && oo.names == nil && d <= 1 {
		switch r := g.rng.Intn(100); {
		case r < 5:
			wide = 9 + g.rng.Intn(3)
		case r < 8:
			wide = 17 + g.rng.Intn(3)
		}
	}
	if wide > 0 {
		n = wide - len(props) + g.rng.Intn(2)
	}
	for i := 0; i < n; i++ {
		var ps *jsonv.Value
		var pi info
		if d >= g.opt.Depth || (wide > 0 && g.rng.Chance(85)) {
			ps, pi = g.scalar(false)
		} else {
			ps, pi = g.schema(d+1, false)
		}
		if pi.height+1 > height {
			height = pi.height + 1
		}
		reqP := 50
		if wide > 0 {
			reqP = 80
		}
		props = append(props, prop{names.take(g.rng, propWords), ps, g.rng.Chance(reqP)})
	}
	// shuffle so that fixed properties are not always first
	for i := len(props) - 1; i > 0; i-- {
		j := g.rng.Intn(i + 1)
		props[i], props[j] = props[j], props[i]
	}

	o := typed("object")
	in := info{class: cObject, distinct: 6, height: height}
	var required []string
	po := &ob{}
	for _, p := range props {
		po.set(p.name, p.schema)
		in.props = append(in.props, p.name)
		if p.req {
			required = append(required, p.name)
		}
	}
	// required is listed in an order of its own
	for i := len(required) - 1; i > 0; i-- {
		j := g.rng.Intn(i + 1)
		required[i], required[j] = required[j], required[i]
	}

	// additionalProperties
	apMode := 0 // 0 absent, 1 true, 2 false, 3 schema
	switch {
	case oo.closed:
		apMode = 2
	case oo.open || !g.opt.has(FAdditional):
		apMode = 0
	default:
		switch r := g.rng.Intn(100); {
		case r < 55:
			apMode = 0
		case r < 63:
			apMode = 1
		case r < 88:
			apMode = 2
		default:
			apMode = 3
		}
	}
	undeclared := false
	if apMode != 2 && !oo.open && g.opt.has(FRequiredUndeclared) && g.rng.Chance(4) {
		required = append(required, names.take(g.rng, propWords))
		undeclared = true
	}
	if len(props) > 0 || g.rng.Chance(50) {
		o.set("properties", po.val())
	}
	if len(required) > 0 {
		o.set("required", strArray(required))
	}
	switch apMode {
	case 1:
		o.set("additionalProperties", jsonv.NewBool(true))
	case 2:
		o.set("additionalProperties", jsonv.NewBool(false))
	case 3:
		as, _ := g.scalar(false)
		o.set("additionalProperties", as)
		if in.height < 1 {
			in.height = 1
		}
	}
	in.open = apMode == 0 && !undeclared

	// property counts
	if !oo.open && oo.names == nil && g.opt.has(FPropCounts) && g.rng.Chance(10) {
		R, P := len(required), len(props)
		maxPossible := P
		if apMode != 2 {
			maxPossible = P + 3
		}
		if maxPossible > R || R > 0 {
			lo := R
			if maxPossible > R {
				lo = R + g.rng.Intn(2)
			}
			if lo > maxPossible {
				lo = maxPossible
			}
			hi := lo + g.rng.Intn(maxPossible-lo+1)
			if hi == 0 {
				hi = 1
			}
			switch g.rng.Intn(3) {
			case 0:
				o.set("minProperties", intVal(int64(lo)))
			case 1:
				o.set("maxProperties", intVal(int64(hi)))
			default:
				o.set("minProperties", intVal(int64(lo)))
				o.set("maxProperties", intVal(int64(hi)))
			}
			in.open = false
		}
	}
	g.maybeNullable(o, &in, oo.noNullable || oo.closed || oo.open)
	return o.val(), in
}

// ---------------------------------------------------------------- $ref

func (g *sgen) ref(d int, noNullable bool) (*jsonv.Value, info) {
	// reuse an existing component when it fits
	if len(g.order) > 0 && g.rng.Chance(40) {
		var fit []string
		for _, name := range g.order {
			in := g.infos[name]
			if d+in.height <= g.opt.Depth && !(noNullable && in.nullable) {
				fit = append(fit, name)
			}
		}
		if len(fit) > 0 {
			name := ev.Pick(g.rng, fit)
			return Ref(name), g.infos[name]
		}
	}
	if g.opt.has(FRecursion) && d < g.opt.Depth && g.rng.Chance(35) {
		return g.recursive(d)
	}
	name := g.newComp("")
	var s *jsonv.Value
	var in info
	if d < g.opt.Depth && g.rng.Chance(70) {
		s, in = g.object(d, objOpts{noNullable: noNullable})
	} else {
		s, in = g.schemaNoRef(d, noNullable)
	}
	g.define(name, s, in)
	return Ref(name), in
}

func (g *sgen) schemaNoRef(d int, noNullable bool) (*jsonv.Value, info) {
	for {
		s, in := g.schema(d, noNullable)
		if s.Get("$ref") == nil {
			return s, in
		}
	}
}

// asComponent stores s under a fresh name and returns the reference.
func (g *sgen) asComponent(word string, s *jsonv.Value, in info) *jsonv.Value {
	name := g.newComp(word)
	g.define(name, s, in)
	return Ref(name)
}

// recursive builds a recursive component family with a base case.
func (g *sgen) recursive(d int) (*jsonv.Value, info) {
	// nesting each family adds below the place it is used: list 1, expr 1, tree 2, mutual 3
	kinds := []string{"list"}
	if d+2 <= g.opt.Depth {
		kinds = append(kinds, "tree")
	}
	if d+3 <= g.opt.Depth {
		kinds = append(kinds, "mutual")
	}
	if g.opt.has(FOneOf) {
		kinds = append(kinds, "expr")
	}
	closed := g.opt.has(FAdditional) && g.rng.Chance(35)
	switch ev.Pick(g.rng, kinds) {
	case "list":
		name := g.newComp("List")
		ns := newNameSet()
		v, _ := g.scalar(false)
		next := ns.take(g.rng, []string{"next", "tail", "rest"})
		s, in := g.object(g.opt.Depth, objOpts{names: ns, closed: closed, open: !closed, maxProps: 2, noNullable: true,
			fixed: []fixedProp{{ns.take(g.rng, propWords), v, g.rng.Chance(70)}, {next, Ref(name), false}}})
		in.height = 1
		in.open = false
		g.define(name, s, in)
		return Ref(name), in
	case "tree":
		name := g.newComp("Tree")
		ns := newNameSet()
		v, _ := g.scalar(false)
		arr := typed("array").set("items", Ref(name))
		if g.opt.has(FItemCounts) && g.rng.Chance(60) {
			arr.set("maxItems", intVal(int64(2+g.rng.Intn(2))))
		}
		s, in := g.object(g.opt.Depth, objOpts{names: ns, closed: closed, open: !closed, maxProps: 2, noNullable: true,
			fixed: []fixedProp{{ns.take(g.rng, propWords), v, g.rng.Chance(70)}, {ns.take(g.rng, []string{"children", "kids", "nodes"}), arr.val(), g.rng.Bool()}}})
		in.height = 2
		in.open = false
		g.define(name, s, in)
		return Ref(name), in
	case "mutual":
		a, b := g.newComp("Ping"), g.newComp("Pong")
		nsA, nsB := newNameSet(), newNameSet()
		va, _ := g.scalar(false)
		vb, _ := g.scalar(false)
		sa, ia := g.object(g.opt.Depth, objOpts{names: nsA, closed: closed, open: !closed, maxProps: 1, noNullable: true,
			fixed: []fixedProp{{nsA.take(g.rng, propWords), va, g.rng.Bool()}, {nsA.take(g.rng, []string{"pong", "other", "peer"}), Ref(b), false}}})
		arr := typed("array").set("items", Ref(a))
		if g.opt.has(FItemCounts) {
			arr.set("maxItems", intVal(2))
		}
		sb, ib := g.object(g.opt.Depth, objOpts{names: nsB, closed: closed, open: !closed, maxProps: 1, noNullable: true,
			fixed: []fixedProp{{nsB.take(g.rng, propWords), vb, g.rng.Bool()}, {nsB.take(g.rng, []string{"pings", "backs", "links"}), arr.val(), g.rng.Bool()}}})
		ia.height, ib.height = 3, 3
		ia.open, ib.open = false, false
		g.define(a, sa, ia)
		g.define(b, sb, ib)
		return Ref(a), ia
	}
	// expr: E = oneOf[Leaf, Node], Node refers back to E
	e, leaf, node := g.newComp("Expr"), g.newComp("Leaf"), g.newComp("Node")
	ns := newNameSet()
	lv, _ := g.scalar(true)
	nv, _ := g.scalar(true)
	sl, il := g.object(g.opt.Depth, objOpts{names: ns, closed: true, maxProps: 1, noNullable: true,
		fixed: []fixedProp{{ns.take(g.rng, []string{"leaf", "lit", "atom"}), lv, true}}})
	sn, inn := g.object(g.opt.Depth, objOpts{names: ns, closed: true, maxProps: 1, noNullable: true,
		fixed: []fixedProp{{ns.take(g.rng, []string{"op", "fn", "node_tag"}), nv, true}, {ns.take(g.rng, []string{"left", "lhs", "arg"}), Ref(e), g.rng.Bool()}, {ns.take(g.rng, []string{"right", "rhs", "arg2"}), Ref(e), false}}})
	il.height, inn.height = 1, 1
	g.define(leaf, sl, il)
	g.define(node, sn, inn)
	vars := []*jsonv.Value{Ref(leaf), Ref(node)}
	if g.rng.Bool() {
		vars[0], vars[1] = vars[1], vars[0]
	}
	kw := "oneOf"
	se := (&ob{}).set(kw, jsonv.NewArray(vars...)).val()
	ie := info{class: cSum, distinct: 6, height: 1}
	g.define(e, se, ie)
	return Ref(e), ie
}

// ---------------------------------------------------------------- sums

func (g *sgen) sumKeyword() string {
	switch {
	case !g.opt.has(FAnyOf):
		return "oneOf"
	case !g.opt.has(FOneOf):
		return "anyOf"
	case g.rng.Chance(65):
		return "oneOf"
	}
	return "anyOf"
}

func (g *sgen) sum(d int) (*jsonv.Value, info) {
	if g.rng.Bool() {
		return g.objectSum(d)
	}
	return g.typeSum(d)
}

// typeSum: variants of pairwise different JSON types.
func (g *sgen) typeSum(d int) (*jsonv.Value, info) {
	num := cInteger
	if g.opt.has(FNumber) && g.rng.Chance(35) {
		num = cNumber
	}
	classes := []class{cString, num, cBoolean}
	if d < g.opt.Depth {
		classes = append(classes, cArray, cObject)
	}
	for i := len(classes) - 1; i > 0; i-- {
		j := g.rng.Intn(i + 1)
		classes[i], classes[j] = classes[j], classes[i]
	}
	n := 2 + g.rng.Intn(3)
	if n > len(classes) {
		n = len(classes)
	}
	var vars []*jsonv.Value
	in := info{class: cSum, distinct: 6}
	for _, c := range classes[:n] {
		s, si := g.ofClass(c, d)
		if si.height > in.height {
			in.height = si.height
		}
		if g.opt.has(FRef) && g.rng.Chance(25) {
			s = g.asComponent("", s, si)
		}
		vars = append(vars, s)
	}
	return (&ob{}).set(g.sumKeyword(), jsonv.NewArray(vars...)).val(), in
}

// objectSum: closed object variants, each with a required property of its own.
func (g *sgen) objectSum(d int) (*jsonv.Value, info) {
	if d >= g.opt.Depth {
		return g.typeSum(d)
	}
	n := 2 + g.rng.Intn(2)
	ns := newNameSet()
	disc := g.opt.has(FDiscriminator) && g.opt.has(FRef) && g.rng.Chance(45)
	var discProp string
	var keys []string
	if disc {
		discProp = ns.take(g.rng, discNames)
		ks := newNameSet()
		for i := 0; i < n; i++ {
			keys = append(keys, ks.take(g.rng, enumWords))
		}
	}
	withEnum := g.opt.has(FEnum) && g.rng.Bool()
	var vars []*jsonv.Value
	var names []string
	in := info{class: cSum, distinct: 6}
	for i := 0; i < n; i++ {
		us, _ := g.scalar(true)
		fixed := []fixedProp{{ns.take(g.rng, propWords), us, true}}
		if disc {
			ds := typed("string")
			if withEnum {
				ds.set("enum", strArray([]string{keys[i]}))
			}
			fixed = append(fixed, fixedProp{discProp, ds.val(), true})
		}
		s, si := g.object(d, objOpts{names: ns, closed: true, fixed: fixed, noNullable: true, maxProps: 3})
		if si.height > in.height {
			in.height = si.height
		}
		if disc || (g.opt.has(FRef) && g.rng.Chance(40)) {
			name := g.newComp("")
			g.define(name, s, si)
			names = append(names, name)
			s = Ref(name)
		} else {
			names = append(names, "")
		}
		vars = append(vars, s)
	}
	o := (&ob{}).set(g.sumKeyword(), jsonv.NewArray(vars...))
	if disc {
		useNames := g.rng.Chance(35) && !withEnum
		mp := &ob{}
		for i := range vars {
			k := keys[i]
			if useNames {
				k = names[i]
			}
			mp.set(k, jsonv.NewString(RefPrefix+names[i]))
		}
		o.set("discriminator", (&ob{}).set("propertyName", jsonv.NewString(discProp)).set("mapping", mp.val()).val())
	}
	return o.val(), in
}

// ---------------------------------------------------------------- allOf

func (g *sgen) allOf(d int) (*jsonv.Value, info) {
	if d >= g.opt.Depth {
		return g.object(d, objOpts{})
	}
	n := 2 + g.rng.Intn(2)
	ns := newNameSet()
	in := info{class: cObject, distinct: 6}
	var members []*jsonv.Value
	if g.opt.has(FRef) && g.rng.Bool() {
		// first member: $ref to an open object component
		var fit []string
		for _, name := range g.order {
			ci := g.infos[name]
			if ci.class == cObject && ci.open && !ci.nullable && d+ci.height <= g.opt.Depth {
				fit = append(fit, name)
			}
		}
		sort.Strings(fit)
		var name string
		if len(fit) > 0 && g.rng.Bool() {
			name = ev.Pick(g.rng, fit)
		} else {
			s, si := g.object(d, objOpts{open: true, noNullable: true, maxProps: 4})
			name = g.newComp("Base")
			g.define(name, s, si)
		}
		ci := g.infos[name]
		ns = newNameSet(ci.props...)
		in.props = append(in.props, ci.props...)
		in.height = ci.height
		members = append(members, Ref(name))
		n = 2
	}
	for len(members) < n {
		s, si := g.object(d, objOpts{names: ns, open: true, noNullable: true, maxProps: 3})
		in.props = append(in.props, si.props...)
		if si.height > in.height {
			in.height = si.height
		}
		members = append(members, s)
	}
	return (&ob{}).set("allOf", jsonv.NewArray(members...)).val(), in
}
