package schemaref

import (
	"fmt"
	"math/big"
	"regexp"
	"sort"
	"strings"
	"testing"
	"time"

	"verifharness/internal/ev"
	"verifharness/internal/jsonv"
)

// optionsFor spreads the generator options over the case index.
func optionsFor(i int) GenOptions {
	o := GenOptions{}
	switch i % 10 {
	case 3:
		o.ForceWide = 9
	case 6:
		o.ForceWide = 17
	case 7:
		o.RootObject = true
	case 8:
		o.Depth = 2
	case 9:
		o.Depth = 4
	}
	return o
}

var identRe = regexp.MustCompile(`^[A-Za-z][A-Za-z0-9_]*$`)

// checker verifies the by-construction promises of GenSchema independently of
// the generator's own bookkeeping.
type checker struct {
	t     *testing.T
	comps map[string]*jsonv.Value
	res   Resolver
	name  string
	kw    map[string]int
}

func (c *checker) errorf(format string, a ...any) {
	c.t.Helper()
	c.t.Errorf("%s: %s", c.name, fmt.Sprintf(format, a...))
}

func (c *checker) deref(s *jsonv.Value) *jsonv.Value {
	d, msg := deref(s, c.res)
	if msg != "" {
		c.errorf("deref: %s", msg)
		return jsonv.NewObject()
	}
	return d
}

func dyadicSafe(v *jsonv.Value) bool {
	if v.Kind != jsonv.Number {
		return false
	}
	if !binary64Exact(v.Num) {
		return false
	}
	if v.Num.IsInteger() {
		r := v.Num.Rat()
		return IntegerText(v.Num) && new(big.Int).Abs(r.Num()).Cmp(two53) <= 0
	}
	return true
}

// classes returns the JSON type classes a schema admits ("object:closed:<unique required>" handled by caller).
func (c *checker) typeOf(s *jsonv.Value) string {
	s = c.deref(s)
	t, _ := getStr(s, "type")
	if t == "" && s.Get("allOf") != nil {
		return "object"
	}
	return t
}

func (c *checker) declared(s *jsonv.Value) (props []string, required []string, closed bool) {
	s = c.deref(s)
	if a := s.Get("allOf"); a != nil {
		for _, m := range a.Elems {
			p, r, cl := c.declared(m)
			props = append(props, p...)
			required = append(required, r...)
			closed = closed || cl
		}
	}
	if p := s.Get("properties"); p != nil {
		for _, m := range p.Members {
			props = append(props, m.Name)
		}
	}
	if r := s.Get("required"); r != nil {
		for _, e := range r.Elems {
			required = append(required, e.Str)
		}
	}
	if ap := s.Get("additionalProperties"); ap != nil && ap.Kind == jsonv.Bool && !ap.B {
		closed = true
	}
	return
}

// walk checks schema s (a schema position) and returns its nesting height
// (not following $ref, whose height is accounted by the generator).
func (c *checker) walk(s *jsonv.Value, where string) {
	if s.Kind != jsonv.Object {
		c.errorf("%s: schema is not an object", where)
		return
	}
	for _, m := range s.Members {
		c.kw[m.Name]++
	}
	if r := s.Get("$ref"); r != nil {
		if len(s.Members) != 1 {
			c.errorf("%s: $ref with siblings: %s", where, s)
		}
		if _, ok := c.res(r.Str); !ok {
			c.errorf("%s: dangling %s", where, r.Str)
		}
		return
	}
	t, hasType := getStr(s, "type")
	if s.Get("nullable") != nil {
		if !hasType {
			c.errorf("%s: nullable without type", where)
		}
		if s.Get("enum") != nil {
			c.errorf("%s: nullable with enum", where)
		}
	}
	if e := s.Get("enum"); e != nil {
		if t != "string" && t != "integer" {
			c.errorf("%s: enum on type %q", where, t)
		}
		if len(e.Elems) < 1 || len(e.Elems) > 5 {
			c.errorf("%s: enum with %d values", where, len(e.Elems))
		}
		for i, x := range e.Elems {
			if ok, why := Validate((&ob{}).set("type", jsonv.NewString(t)).val(), x, nil); !ok {
				c.errorf("%s: enum value of the wrong type: %s", where, why)
			}
			for j := 0; j < i; j++ {
				if jsonv.Equal(x, e.Elems[j]) {
					c.errorf("%s: enum repeats %s", where, x)
				}
			}
			if x.Kind == jsonv.Number && !dyadicSafe(x) {
				c.errorf("%s: enum number %s", where, x)
			}
		}
	}
	switch t {
	case "integer", "number":
		for _, k := range []string{"minimum", "maximum", "multipleOf"} {
			if v := s.Get(k); v != nil && !dyadicSafe(v) {
				c.errorf("%s: %s=%s is not a safe dyadic number", where, k, v)
			}
		}
		for _, k := range []string{"exclusiveMinimum", "exclusiveMaximum"} {
			if v := s.Get(k); v != nil {
				if v.Kind != jsonv.Bool {
					c.errorf("%s: %s is not a boolean", where, k)
				}
				if s.Get(strings.ToLower(k[9:10])+k[10:]) == nil {
					c.errorf("%s: %s without its bound", where, k)
				}
			}
		}
		r := numericRange(s, t == "integer", big.NewRat(1, 8))
		if r.kmin != nil && r.kmax != nil {
			n := new(big.Int).Sub(r.kmax, r.kmin).Int64() + 1
			need := int64(3)
			if s.Get("multipleOf") != nil {
				need = 2
			}
			if n < need {
				c.errorf("%s: only %d admissible values: %s", where, n, s)
			}
		}
		if m := s.Get("multipleOf"); m != nil {
			okM := false
			for _, a := range []string{"0.25", "0.5", "2", "3", "5", "10"} {
				if m.Num.Equal(jsonv.MustNumber(a).Num) {
					okM = true
				}
			}
			if !okM || (t == "integer" && !m.Num.IsInteger()) {
				c.errorf("%s: multipleOf %s", where, m)
			}
		}
	case "string":
		lo, hasLo := getInt(s, "minLength")
		hi, hasHi := getInt(s, "maxLength")
		if hasLo && hasHi && lo > hi {
			c.errorf("%s: minLength %d > maxLength %d", where, lo, hi)
		}
		if p, ok := getStr(s, "pattern"); ok && !PortablePattern(p) {
			c.errorf("%s: pattern %q not portable", where, p)
		}
	case "boolean":
	case "array":
		lo, hasLo := getInt(s, "minItems")
		hi, hasHi := getInt(s, "maxItems")
		if (hasLo && lo > 5) || (hasHi && hi > 5) || (hasLo && hasHi && lo > hi) {
			c.errorf("%s: item counts %d..%d", where, lo, hi)
		}
		it := s.Get("items")
		if it == nil {
			c.errorf("%s: array without items", where)
			return
		}
		if isTrue(s.Get("uniqueItems")) {
			d := c.deref(it)
			dt, _ := getStr(d, "type")
			if (dt != "string" && dt != "integer" && dt != "boolean") || d.Get("nullable") != nil {
				c.errorf("%s: uniqueItems over %s", where, d)
			}
		}
		c.walk(it, where+"/items")
	case "object":
		c.walkObject(s, where)
	case "":
		c.walkCombinator(s, where)
	default:
		c.errorf("%s: type %q", where, t)
	}
	if hasType {
		for _, k := range []string{"allOf", "oneOf", "anyOf", "not"} {
			if s.Get(k) != nil {
				c.errorf("%s: %s next to type", where, k)
			}
		}
	}
}

func (c *checker) checkNames(names []string, where string) {
	seen := map[string]string{}
	for _, n := range names {
		if !identRe.MatchString(n) || goKeywords[n] || goKeywords[strings.ToLower(n)] {
			c.errorf("%s: unsafe property name %q", where, n)
		}
		k := strings.ToLower(strings.ReplaceAll(n, "_", ""))
		if prev, ok := seen[k]; ok {
			c.errorf("%s: property names %q and %q collide", where, prev, n)
		}
		seen[k] = n
	}
}

func (c *checker) walkObject(s *jsonv.Value, where string) {
	props, required, closed := c.declared(s)
	c.checkNames(append(append([]string(nil), props...), undeclared(props, required)...), where)
	if closed && len(undeclared(props, required)) > 0 {
		c.errorf("%s: closed object requires undeclared %v", where, undeclared(props, required))
	}
	if len(props) >= 9 {
		c.kw["#wide9"]++
	}
	if len(props) >= 17 {
		c.kw["#wide17"]++
	}
	if len(required) >= 9 {
		c.kw["#required9"]++
	}
	if len(required) >= 17 {
		c.kw["#required17"]++
	}
	lo, hasLo := getInt(s, "minProperties")
	hi, hasHi := getInt(s, "maxProperties")
	if hasLo && hasHi && lo > hi {
		c.errorf("%s: property counts %d..%d", where, lo, hi)
	}
	if hasHi && hi < len(required) {
		c.errorf("%s: maxProperties %d < %d required", where, hi, len(required))
	}
	if hasLo && closed && lo > len(props) {
		c.errorf("%s: minProperties %d > %d declared in a closed object", where, lo, len(props))
	}
	if p := s.Get("properties"); p != nil {
		for _, m := range p.Members {
			c.walk(m.Value, where+"/"+m.Name)
		}
	}
	if ap := s.Get("additionalProperties"); ap != nil && ap.Kind == jsonv.Object {
		c.walk(ap, where+"/additionalProperties")
	}
}

func undeclared(props, required []string) []string {
	var out []string
	for _, r := range required {
		found := false
		for _, p := range props {
			if p == r {
				found = true
			}
		}
		if !found {
			out = append(out, r)
		}
	}
	return out
}

func (c *checker) walkCombinator(s *jsonv.Value, where string) {
	n := 0
	if a := s.Get("allOf"); a != nil {
		n++
		var all []string
		refs := 0
		for i, m := range a.Elems {
			if m.Get("$ref") != nil {
				refs++
				if i != 0 {
					c.errorf("%s: allOf $ref not first", where)
				}
			}
			d := c.deref(m)
			if t, _ := getStr(d, "type"); t != "object" {
				c.errorf("%s: allOf member %d is not an object schema", where, i)
			}
			if d.Get("additionalProperties") != nil || d.Get("nullable") != nil {
				c.errorf("%s: allOf member %d has additionalProperties/nullable", where, i)
			}
			p, r, _ := c.declared(m)
			all = append(all, p...)
			all = append(all, undeclared(p, r)...)
			c.walk(m, fmt.Sprintf("%s/allOf/%d", where, i))
		}
		if refs > 1 {
			c.errorf("%s: allOf with %d $refs", where, refs)
		}
		c.checkNames(all, where+"/allOf")
	}
	for _, kw := range []string{"oneOf", "anyOf"} {
		a := s.Get(kw)
		if a == nil {
			continue
		}
		n++
		if len(a.Elems) < 2 {
			c.errorf("%s: %s with %d variants", where, kw, len(a.Elems))
		}
		types := map[string]int{}
		for i, m := range a.Elems {
			d := c.deref(m)
			if d.Get("nullable") != nil {
				c.errorf("%s: nullable variant", where)
			}
			types[c.typeOf(m)]++
			c.walk(m, fmt.Sprintf("%s/%s/%d", where, kw, i))
		}
		if types["integer"] > 0 && types["number"] > 0 {
			c.errorf("%s: integer next to number", where)
		}
		if types[""] > 0 {
			c.errorf("%s: untyped variant", where)
		}
		if len(types) == len(a.Elems) {
			c.kw["#type-sum"]++
		} else if len(types) == 1 && types["object"] == len(a.Elems) {
			c.kw["#object-sum"]++
			// closed objects, each with a required property nobody else declares
			decl := make([][]string, len(a.Elems))
			reqs := make([][]string, len(a.Elems))
			for i, m := range a.Elems {
				var closed bool
				decl[i], reqs[i], closed = c.declared(m)
				if !closed {
					c.errorf("%s: object variant %d is not closed", where, i)
				}
			}
			for i := range a.Elems {
				unique := false
				for _, r := range reqs[i] {
					mine := true
					for j := range a.Elems {
						if j == i {
							continue
						}
						for _, p := range decl[j] {
							if p == r {
								mine = false
							}
						}
					}
					if mine {
						unique = true
					}
				}
				if !unique {
					c.errorf("%s: object variant %d has no required property of its own", where, i)
				}
			}
			if d := s.Get("discriminator"); d != nil {
				pn, _ := getStr(d, "propertyName")
				mp := d.Get("mapping")
				if mp == nil || len(mp.Members) != len(a.Elems) {
					c.errorf("%s: discriminator mapping incomplete", where)
					return
				}
				for i, m := range a.Elems {
					ref, isRef := getStr(m, "$ref")
					if !isRef || mp.Members[i].Value.Str != ref {
						c.errorf("%s: discriminator mapping[%d] does not point to variant", where, i)
					}
					dv := c.deref(m)
					ps := dv.Get("properties").Get(pn)
					if ps == nil || getStrOr(ps, "type") != "string" {
						c.errorf("%s: variant %d: discriminating property is not a string", where, i)
					}
					isReq := false
					for _, r := range reqs[i] {
						if r == pn {
							isReq = true
						}
					}
					if !isReq {
						c.errorf("%s: variant %d: discriminating property not required", where, i)
					}
					if ps != nil {
						if e := ps.Get("enum"); e != nil && (len(e.Elems) != 1 || e.Elems[0].Str != mp.Members[i].Name) {
							c.errorf("%s: variant %d: discriminator enum does not equal its mapping key", where, i)
						}
					}
				}
			}
		} else {
			c.errorf("%s: variants neither type-disjoint nor all objects: %v", where, types)
		}
	}
	if n == 0 {
		c.errorf("%s: schema without type, allOf, oneOf, anyOf: %s", where, s)
	}
	if n > 1 {
		c.errorf("%s: several combinators", where)
	}
}

// depthOf measures array/object nesting below s, following $ref but cutting recursion.
func (c *checker) depthOf(s *jsonv.Value, active map[*jsonv.Value]bool) int {
	s = c.deref(s)
	if active[s] {
		return 0
	}
	active[s] = true
	defer delete(active, s)
	best := 0
	up := func(x int) {
		if x > best {
			best = x
		}
	}
	for _, kw := range []string{"allOf", "oneOf", "anyOf"} {
		if a := s.Get(kw); a != nil {
			for _, m := range a.Elems {
				up(c.depthOf(m, active))
			}
		}
	}
	if it := s.Get("items"); it != nil {
		up(1 + c.depthOf(it, active))
	}
	if p := s.Get("properties"); p != nil {
		for _, m := range p.Members {
			up(1 + c.depthOf(m.Value, active))
		}
	}
	if ap := s.Get("additionalProperties"); ap != nil && ap.Kind == jsonv.Object {
		up(1 + c.depthOf(ap, active))
	}
	return best
}

func TestGenSchema(t *testing.T) {
	const N = 400
	kw := map[string]int{}
	instances, nulls := 0, 0
	depths := map[int]int{}
	for i := 0; i < N; i++ {
		opt := optionsFor(i)
		rng := ev.NewRand(int64(i), "gen-test")
		comps, root := GenSchema(rng, opt)
		res := MapResolver(comps)
		c := &checker{t: t, comps: comps, res: res, name: fmt.Sprintf("schema %d", i), kw: kw}
		names := make([]string, 0, len(comps))
		for name := range comps {
			names = append(names, name)
		}
		sort.Strings(names)
		for _, name := range names {
			if comps[name] == nil {
				t.Fatalf("schema %d: component %s is nil", i, name)
			}
			if name != root && !regexp.MustCompile(`^T[0-9]+[A-Z][a-z]+$`).MatchString(name) {
				t.Errorf("schema %d: component name %q", i, name)
			}
			c.walk(comps[name], name)
		}
		depthLimit := opt.Depth
		if depthLimit == 0 {
			depthLimit = 3
		}
		if d := c.depthOf(comps[root], map[*jsonv.Value]bool{}); d > depthLimit {
			t.Errorf("schema %d: nesting depth %d > %d: %s", i, d, depthLimit, componentsJSON(comps))
		}
		depths[c.depthOf(comps[root], map[*jsonv.Value]bool{})]++
		if opt.ForceWide > 0 {
			if p := comps[root].Get("properties"); p == nil || len(p.Members) < opt.ForceWide {
				t.Errorf("schema %d: ForceWide %d not honoured", i, opt.ForceWide)
			}
		}
		if opt.RootObject || opt.ForceWide > 0 {
			if ty := c.typeOf(comps[root]); ty != "object" && comps[root].Get("oneOf") == nil && comps[root].Get("anyOf") == nil {
				t.Errorf("schema %d: RootObject not honoured: %s", i, comps[root])
			}
		}
		// determinism
		comps2, _ := GenSchema(ev.NewRand(int64(i), "gen-test"), opt)
		if string(componentsJSON(comps)) != string(componentsJSON(comps2)) {
			t.Fatalf("schema %d: GenSchema is not a function of the PRNG state", i)
		}
		for k := 0; k < 6; k++ {
			inst := GenInstance(comps[root], res, rng)
			if inst == nil {
				t.Errorf("schema %d: no instance found: %s", i, componentsJSON(comps))
				break
			}
			instances++
			if inst.Kind == jsonv.Null {
				nulls++
			}
			if ok, why := Validate(comps[root], inst, res); !ok {
				t.Errorf("schema %d: generated instance invalid: %s\n%s\n%s", i, why, inst, componentsJSON(comps))
			}
			if u := Undecided(comps[root], inst, res); u != "" {
				t.Errorf("schema %d: generated instance is outside the deciding domain (%s): %s", i, u, inst)
			}
			if inst.HasDuplicateKeys() {
				t.Errorf("schema %d: duplicate member names in %s", i, inst)
			}
			inst.Walk(func(v *jsonv.Value) {
				if v.Kind == jsonv.Number && !dyadicSafe(v) {
					t.Errorf("schema %d: instance number %s is not a safe dyadic number", i, v)
				}
			})
		}
	}
	var keys []string
	for k := range kw {
		keys = append(keys, k)
	}
	sort.Strings(keys)
	var sb strings.Builder
	for _, k := range keys {
		fmt.Fprintf(&sb, " %s=%d", k, kw[k])
	}
	t.Logf("%d schemas, %d valid instances (%d null); nesting depth histogram %v; keyword occurrences:%s", N, instances, nulls, depths, sb.String())
	for _, k := range []string{"type", "properties", "required", "additionalProperties", "items", "enum", "nullable", "minimum", "maximum",
		"exclusiveMinimum", "exclusiveMaximum", "multipleOf", "minLength", "maxLength", "pattern", "minItems", "maxItems", "uniqueItems",
		"minProperties", "maxProperties", "allOf", "oneOf", "anyOf", "discriminator", "$ref", "#wide9", "#wide17", "#required9", "#required17", "#type-sum", "#object-sum"} {
		if kw[k] == 0 {
			t.Errorf("no generated schema uses %s", k)
		}
	}
}

func TestGenSchemaExclude(t *testing.T) {
	all := Feature(1<<20 - 1)
	for i := 0; i < 60; i++ {
		comps, _ := GenSchema(ev.NewRand(int64(i), "exclude"), GenOptions{Exclude: all})
		txt := string(componentsJSON(comps))
		for _, k := range []string{"$ref", "oneOf", "anyOf", "allOf", "nullable", "enum", "pattern", "minLength", "maxLength", "minimum", "maximum",
			"multipleOf", `"number"`, "minItems", "maxItems", "uniqueItems", "additionalProperties", "minProperties", "maxProperties", "discriminator"} {
			if strings.Contains(txt, `"`+strings.Trim(k, `"`)+`"`) {
				t.Errorf("excluded keyword %s generated: %s", k, txt)
			}
		}
	}
}

func TestRecursionHasBaseCase(t *testing.T) {
	found := 0
	for i := 0; i < 300 && found < 40; i++ {
		comps, root := GenSchema(ev.NewRand(int64(i), "rec"), GenOptions{RootObject: true})
		txt := string(componentsJSON(comps))
		if !strings.Contains(txt, "List") && !strings.Contains(txt, "Tree") && !strings.Contains(txt, "Ping") && !strings.Contains(txt, "Expr") {
			continue
		}
		found++
		res := MapResolver(comps)
		rng := ev.NewRand(int64(i), "rec-inst")
		for k := 0; k < 10; k++ {
			inst := GenInstance(comps[root], res, rng)
			if inst == nil {
				t.Fatalf("recursive schema %d has no instance: %s", i, txt)
			}
			if n := len(jsonv.Compact(inst)); n > 1<<16 {
				t.Errorf("recursive schema %d: instance of %d bytes", i, n)
			}
		}
	}
	if found < 10 {
		t.Errorf("only %d recursive schemas seen", found)
	}
}

func TestMutants(t *testing.T) {
	kinds := map[string][2]int{} // kind family -> {valid, invalid}
	total := 0
	for i := 0; i < 300; i++ {
		rng := ev.NewRand(int64(i), "mut-test")
		comps, root := GenSchema(rng, optionsFor(i))
		res := MapResolver(comps)
		inst := GenInstance(comps[root], res, rng)
		if inst == nil {
			t.Fatalf("schema %d: no instance", i)
		}
		before := string(jsonv.Compact(inst))
		ms := Mutants(comps[root], res, inst, rng)
		if string(jsonv.Compact(inst)) != before {
			t.Fatalf("schema %d: Mutants modified the instance", i)
		}
		for _, m := range ms {
			total++
			if jsonv.Equal(m.Inst, inst) {
				t.Errorf("schema %d: mutant %s at %q equals the instance", i, m.Kind, m.Path)
			}
			if m.Inst.HasDuplicateKeys() {
				t.Errorf("schema %d: mutant %s at %q has duplicate names: %s", i, m.Kind, m.Path, m.Inst)
			}
			ok, why := Validate(comps[root], m.Inst, res)
			if strings.HasPrefix(why, SchemaErrorPrefix) {
				t.Fatalf("schema %d: %s", i, why)
			}
			fam := m.Kind
			if k := strings.IndexByte(fam, ':'); k >= 0 {
				fam = fam[:k]
			}
			c := kinds[fam]
			if ok {
				c[0]++
			} else {
				c[1]++
			}
			kinds[fam] = c
		}
	}
	var keys []string
	for k := range kinds {
		keys = append(keys, k)
	}
	sort.Strings(keys)
	var sb strings.Builder
	for _, k := range keys {
		fmt.Fprintf(&sb, "\n  %-28s valid=%-6d invalid=%d", k, kinds[k][0], kinds[k][1])
	}
	t.Logf("%d mutants of 300 instances; verdicts by kind:%s", total, sb.String())
	for _, k := range []string{"type/null", "type/string", "type/integer", "type/number", "type/boolean", "type/array", "type/object",
		"minimum/-1", "minimum/+1", "maximum/-1", "maximum/+1", "minimum/-0.5", "maximum/+0.5", "multipleOf/+step", "multipleOf/+1", "integer/half",
		"minLength/below", "maxLength/above", "pattern/break", "enum/non-member", "minItems/below", "maxItems/above", "uniqueItems/dup-append",
		"required/remove", "additional/add", "additional/add-invalid", "minProperties/below", "maxProperties/above",
		"discriminator/other", "discriminator/remove", "sum/add-foreign", "sum/merge-other"} {
		if kinds[k][0]+kinds[k][1] == 0 {
			t.Errorf("no mutant of kind %s", k)
		}
	}
	// kinds that must be invalid whenever they apply
	for _, k := range []string{"integer/half", "pattern/break", "enum/non-member", "minLength/below", "maxLength/above", "minItems/below", "maxItems/above",
		"required/remove", "minProperties/below", "maxProperties/above", "additional/add-invalid", "minLength/astral"} {
		if kinds[k][0] != 0 {
			t.Errorf("%d mutants of kind %s are valid", kinds[k][0], k)
		}
	}
	for _, k := range []string{"maxLength/astral"} {
		if kinds[k][1] != 0 {
			t.Errorf("%d mutants of kind %s are invalid", kinds[k][1], k)
		}
	}
}

func TestBudget(t *testing.T) {
	start := time.Now()
	n := 0
	for i := 0; i < 200; i++ {
		rng := ev.NewRand(int64(i), "budget")
		comps, root := GenSchema(rng, optionsFor(i))
		res := MapResolver(comps)
		inst := GenInstance(comps[root], res, rng)
		n += len(Mutants(comps[root], res, inst, rng))
	}
	el := time.Since(start)
	t.Logf("GenSchema+GenInstance+Mutants for 200 schemas: %v (%d mutants)", el, n)
	if el > 2*time.Second {
		t.Errorf("budget exceeded: %v", el)
	}
}

func TestRandomJSON(t *testing.T) {
	rng := ev.NewRand(1, "random-json")
	kinds := map[jsonv.Kind]int{}
	for i := 0; i < 2000; i++ {
		v := RandomJSON(rng, 3)
		kinds[v.Kind]++
		if v.HasDuplicateKeys() {
			t.Fatalf("duplicate names: %s", v)
		}
		back, err := jsonv.Parse(jsonv.Compact(v))
		if err != nil || !jsonv.Equal(back, v) {
			t.Fatalf("round trip of %s: %v", v, err)
		}
	}
	if len(kinds) != 6 {
		t.Errorf("kinds seen: %v", kinds)
	}
}
