package schemaref

import (
	"math/big"

	"verifharness/internal/jsonv"
)

// Decidable reports whether the validity of inst against s is determined by
// the specification AND can be cross-checked with the Python oracle, i.e.
// Undecided(s, inst, res) == "". Callers drop triples that are not decidable
// (and only check "no panic" on them).
func Decidable(s, inst *jsonv.Value, res Resolver) bool { return Undecided(s, inst, res) == "" }

// DecidableBySpec is Decidable without the limitations that only concern the
// Python cross-check (reasons starting with "xcheck:"): Validate's exact
// arithmetic is authoritative there.
func DecidableBySpec(s, inst *jsonv.Value, res Resolver) bool {
	r := Undecided(s, inst, res)
	return r == "" || (len(r) > 7 && r[:7] == "xcheck:")
}

// Undecided returns "" when the triple is in the deciding domain, otherwise
// the first reason found. Reasons starting with "spec:" mean that the OpenAPI /
// JSON Schema texts do not determine the answer, or that conforming tools are
// known to disagree; reasons starting with "xcheck:" mean that Validate's
// answer is well defined but python-jsonschema (binary floating point) cannot
// be trusted to reproduce it.
//
//	spec:duplicate-member-names   an object of the instance repeats a name (RFC 8259 §4)
//	spec:lone-surrogate           a string of the instance has an unpaired surrogate escape
//	spec:integer-spelling         1.0 / 1e2 meets `type: integer` (draft 4: no, draft 6+: yes)
//	spec:nullable-enum            null meets `nullable: true` + `enum` without null
//	spec:nullable-without-type    null meets `nullable: true` in a schema without `type`
//	spec:pattern-not-portable     a string meets a pattern outside Patterns
//	spec:pattern-subject          a string with \r, U+2028, U+2029 or astral characters meets a pattern
//	spec:discriminator            the variant named by the discriminator value is not the one the
//	                              oneOf/anyOf semantics select
//	spec:schema-error             Validate reports a schema error
//	xcheck:number-not-binary64    a fraction/exponent number of the instance or of a numeric keyword
//	                              is not exactly a float64
//	xcheck:multipleOf-float       multipleOf needs float division with a quotient >= 2^50
func Undecided(s, inst *jsonv.Value, res Resolver) string {
	if inst.HasDuplicateKeys() {
		return "spec:duplicate-member-names"
	}
	if inst.HasLoneSurrogates() {
		return "spec:lone-surrogate"
	}
	reason := ""
	inst.Walk(func(v *jsonv.Value) {
		if reason == "" && v.Kind == jsonv.Number && !IntegerText(v.Num) && !binary64Exact(v.Num) {
			reason = "xcheck:number-not-binary64"
		}
	})
	if reason != "" {
		return reason
	}
	if _, why := Validate(s, inst, res); len(why) >= len(SchemaErrorPrefix) && why[:len(SchemaErrorPrefix)] == SchemaErrorPrefix {
		return "spec:schema-error"
	}
	u := undec{res: res}
	u.walk(s, inst, 0)
	return u.reason
}

type undec struct {
	res    Resolver
	reason string
}

func (u *undec) set(r string) {
	if u.reason == "" {
		u.reason = r
	}
}

// binary64Exact: is the exact decimal number representable as a float64
// (normal range, at most 53 significant bits).
func binary64Exact(n *jsonv.Num) bool {
	if n.IsZero() {
		return true
	}
	if !n.Exp.IsInt64() || n.Exp.Int64() > 400 || n.Exp.Int64() < -1100 {
		return false
	}
	r := n.Rat()
	if r == nil {
		return false
	}
	den := r.Denom()
	// denominator must be a power of two
	if new(big.Int).And(den, new(big.Int).Sub(den, big.NewInt(1))).Sign() != 0 {
		return false
	}
	num := new(big.Int).Abs(r.Num())
	// strip trailing zero bits of the numerator
	tz := num.TrailingZeroBits()
	sig := num.BitLen() - int(tz)
	if sig > 53 {
		return false
	}
	// binary exponent of the leading bit
	e := num.BitLen() - den.BitLen() // value in [2^(e-1), 2^(e+1))
	return e < 1023 && e > -1021
}

func schemaNumberOK(v *jsonv.Value) bool {
	return v == nil || v.Kind != jsonv.Number || IntegerText(v.Num) || binary64Exact(v.Num)
}

var two50 = new(big.Rat).SetInt(new(big.Int).Lsh(big.NewInt(1), 50))
var two53 = new(big.Int).Lsh(big.NewInt(1), 53)

func (u *undec) walk(s, inst *jsonv.Value, hops int) {
	if u.reason != "" || hops > maxHops {
		return
	}
	s, msg := deref(s, u.res)
	if msg != "" {
		u.set("spec:schema-error")
		return
	}
	t := s.Get("type")
	nullable := isTrue(s.Get("nullable"))
	if inst.Kind == jsonv.Null && nullable {
		if t == nil {
			u.set("spec:nullable-without-type")
		}
		if e := s.Get("enum"); e != nil && e.Kind == jsonv.Array {
			hasNull := false
			for _, m := range e.Elems {
				if m.Kind == jsonv.Null {
					hasNull = true
				}
			}
			if !hasNull {
				u.set("spec:nullable-enum")
			}
		}
	}
	switch inst.Kind {
	case jsonv.Number:
		if t != nil && t.Kind == jsonv.String && t.Str == "integer" && inst.Num.IsInteger() && !IntegerText(inst.Num) {
			u.set("spec:integer-spelling")
		}
		for _, kw := range []string{"minimum", "maximum", "multipleOf"} {
			if !schemaNumberOK(s.Get(kw)) {
				u.set("xcheck:number-not-binary64")
			}
		}
		if m := s.Get("multipleOf"); m != nil && m.Kind == jsonv.Number && !m.Num.IsZero() {
			if !IntegerText(m.Num) || !IntegerText(inst.Num) {
				// python divides as floats: both operands must convert exactly
				// and the quotient must stay far below 2^53
				for _, n := range []*jsonv.Num{m.Num, inst.Num} {
					if IntegerText(n) {
						if r := n.Rat(); r == nil || new(big.Int).Abs(r.Num()).Cmp(two53) > 0 {
							u.set("xcheck:multipleOf-float")
						}
					}
				}
				a, b := inst.Num.Rat(), m.Num.Rat()
				if a == nil || b == nil {
					u.set("xcheck:multipleOf-float")
				} else {
					q := new(big.Rat).Quo(a, b)
					if q.Abs(q).Cmp(two50) >= 0 {
						u.set("xcheck:multipleOf-float")
					}
				}
			}
		}
	case jsonv.String:
		if p := s.Get("pattern"); p != nil && p.Kind == jsonv.String {
			if !PortablePattern(p.Str) {
				u.set("spec:pattern-not-portable")
			} else if !portableSubject(inst.Str) {
				u.set("spec:pattern-subject")
			}
		}
	case jsonv.Array:
		if it := s.Get("items"); it != nil && it.Kind == jsonv.Object {
			for _, e := range inst.Elems {
				u.walk(it, e, 0)
			}
		}
	case jsonv.Object:
		props := s.Get("properties")
		ap := s.Get("additionalProperties")
		for _, m := range inst.Members {
			if props != nil && props.Kind == jsonv.Object {
				if ps := props.Get(m.Name); ps != nil {
					u.walk(ps, m.Value, 0)
					continue
				}
			}
			if ap != nil && ap.Kind == jsonv.Object {
				u.walk(ap, m.Value, 0)
			}
		}
	}
	if e := s.Get("enum"); e != nil && e.Kind == jsonv.Array {
		for _, m := range e.Elems {
			m.Walk(func(x *jsonv.Value) {
				if !schemaNumberOK(x) {
					u.set("xcheck:number-not-binary64")
				}
			})
		}
	}
	for _, kw := range []string{"allOf", "anyOf", "oneOf"} {
		if a := s.Get(kw); a != nil && a.Kind == jsonv.Array {
			for _, m := range a.Elems {
				u.walk(m, inst, hops+1)
			}
			if kw != "allOf" {
				u.discriminator(s, a, inst)
			}
		}
	}
	if n := s.Get("not"); n != nil {
		u.walk(n, inst, hops+1)
	}
}

// discriminator: OAS says the discriminator value selects the schema the
// payload is to be validated against; JSON Schema says oneOf/anyOf select by
// validity. When both readings give the same verdict the triple is decidable.
func (u *undec) discriminator(s, variants, inst *jsonv.Value) {
	d := s.Get("discriminator")
	if d == nil || d.Kind != jsonv.Object || u.reason != "" {
		return
	}
	pn := d.Get("propertyName")
	if pn == nil || pn.Kind != jsonv.String {
		return
	}
	var valid []bool
	nvalid := 0
	for _, m := range variants.Elems {
		ok, _ := Validate(m, inst, u.res)
		valid = append(valid, ok)
		if ok {
			nvalid++
		}
	}
	pure := nvalid == 1
	if s.Get("anyOf") == variants {
		pure = nvalid >= 1
	}
	byDisc := false
	if inst.Kind == jsonv.Object {
		if tag := inst.Get(pn.Str); tag != nil && tag.Kind == jsonv.String {
			target := RefPrefix + tag.Str // implicit mapping: schema name
			if mp := d.Get("mapping"); mp != nil && mp.Kind == jsonv.Object {
				if t := mp.Get(tag.Str); t != nil && t.Kind == jsonv.String {
					target = t.Str
				}
			}
			for i, m := range variants.Elems {
				if r := m.Get("$ref"); r != nil && r.Kind == jsonv.String && r.Str == target {
					byDisc = valid[i]
				}
			}
		}
	}
	if pure != byDisc {
		u.set("spec:discriminator")
	}
}
