package schemaref

import (
	"strings"

	"verifharness/internal/jsonv"
)

// DropUndeclaredRequired returns a copy of the schema in which every "required" list keeps only
// names that are declared under "properties" of the same object or, inside an allOf, of any branch of
// that allOf (the generator merges the branches). Used to name one finding, never to excuse others.
func DropUndeclaredRequired(s *jsonv.Value, comps map[string]*jsonv.Value) *jsonv.Value {
	c := s.Clone()
	var declared func(x *jsonv.Value, depth int, into map[string]bool)
	declared = func(x *jsonv.Value, depth int, into map[string]bool) {
		if x == nil || x.Kind != jsonv.Object || depth > 8 {
			return
		}
		if r := x.Get("$ref"); r != nil && r.Kind == jsonv.String {
			declared(comps[strings.TrimPrefix(r.Str, "#/components/schemas/")], depth+1, into)
			return
		}
		if p := x.Get("properties"); p != nil && p.Kind == jsonv.Object {
			for _, m := range p.Members {
				into[m.Name] = true
			}
		}
		if a := x.Get("allOf"); a != nil && a.Kind == jsonv.Array {
			for _, e := range a.Elems {
				declared(e, depth+1, into)
			}
		}
	}
	var walk func(x *jsonv.Value, inherited map[string]bool)
	walk = func(x *jsonv.Value, inherited map[string]bool) {
		switch x.Kind {
		case jsonv.Array:
			for _, e := range x.Elems {
				walk(e, nil)
			}
			return
		case jsonv.Object:
		default:
			return
		}
		known := map[string]bool{}
		for k := range inherited {
			known[k] = true
		}
		declared(x, 0, known)
		if req := x.Get("required"); req != nil && req.Kind == jsonv.Array {
			var keep []*jsonv.Value
			for _, e := range req.Elems {
				if e.Kind == jsonv.String && known[e.Str] {
					keep = append(keep, e)
				}
			}
			req.Elems = keep
		}
		for _, m := range x.Members {
			switch m.Name {
			case "allOf":
				if m.Value.Kind == jsonv.Array {
					for _, e := range m.Value.Elems {
						walk(e, known) // branches see what their siblings declare
					}
				}
			case "required", "enum", "default", "example":
			default:
				walk(m.Value, nil)
			}
		}
	}
	walk(c, nil)
	return c
}

// recursiveSum: some component with oneOf/anyOf is reachable from one of its own variants.
// DropPropertyCounts removes minProperties/maxProperties everywhere (naming only).
func DropPropertyCounts(s *jsonv.Value) *jsonv.Value {
	c := s.Clone()
	c.Walk(func(x *jsonv.Value) {
		if x.Kind != jsonv.Object || (x.Get("minProperties") == nil && x.Get("maxProperties") == nil) {
			return
		}
		var keep []jsonv.Member
		for _, m := range x.Members {
			if m.Name != "minProperties" && m.Name != "maxProperties" {
				keep = append(keep, m)
			}
		}
		x.Members = keep
	})
	return c
}

// OneOfAsAnyOf returns a copy in which every oneOf keyword is an anyOf (to recognise instances that fail only
// because several variants of an overlapping oneOf match).
func OneOfAsAnyOf(s *jsonv.Value) *jsonv.Value {
	c := s.Clone()
	c.Walk(func(x *jsonv.Value) {
		if x.Kind != jsonv.Object {
			return
		}
		for i, m := range x.Members {
			if m.Name == "oneOf" && m.Value.Kind == jsonv.Array && x.Get("anyOf") == nil {
				x.Members[i].Name = "anyOf"
			}
		}
	})
	return c
}
