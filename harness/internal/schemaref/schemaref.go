// Package schemaref is an independent reference for the question "is the JSON
// instance j valid against the OpenAPI 3.0.x Schema Object S", together with
// generators of schemas, valid instances and single-keyword boundary mutants.
//
// It is written from the text of the OpenAPI 3.0.3 Schema Object section and
// the JSON Schema Validation draft it refers to (draft-wright-json-schema-
// validation-00), on top of the exact JSON value model of package jsonv. It
// does not read, call or imitate the validators of the project under test.
//
// Semantics (DESIGN.md, Appendix C):
//
//   - a schema is a JSON object; `{"$ref": "#/components/schemas/X"}` is
//     replaced by its target (siblings of $ref are ignored); recursion is fine
//     because instances are finite;
//   - `type` is a single string (string|integer|number|boolean|array|object);
//     `nullable: true` next to `type` makes the type check accept null as well
//     (OAS 3.0.3 wording: "A true value adds "null" to the allowed type
//     specified by the type keyword, only if type is explicitly defined within
//     the same Schema Object"); every other keyword of the schema still applies
//     to the null (so an `enum` without null rejects it: that combination is
//     reported by Undecided, because tools disagree on it);
//   - `integer` accepts every number whose value is a mathematical integer
//     (1.0 and 1e2 included; see IntegerSpelling / Undecided for the deciding
//     domain);
//   - minimum/maximum with the BOOLEAN exclusiveMinimum/exclusiveMaximum of
//     OAS 3.0 (= JSON Schema draft 4 form); an exclusive* without its bound has
//     no effect;
//   - multipleOf by exact rational division;
//   - minLength/maxLength count Unicode code points;
//   - pattern is an unanchored search evaluated with Go's regexp (RE2); only
//     the patterns of the portable list (Patterns) are known to mean the same in
//     ECMA-262;
//   - minItems/maxItems/uniqueItems (uniqueness by jsonv.Equal), items;
//   - properties, required (also of names that are not declared),
//     additionalProperties (absent = true, a boolean, or a schema),
//     minProperties/maxProperties;
//   - enum by jsonv.Equal; allOf all, anyOf at least one, oneOf exactly one,
//     not none;
//   - format, discriminator and every unknown keyword are ignored;
//   - without `type`, a keyword constrains only instances of the primitive type
//     it is about.
package schemaref

import (
	"fmt"
	"math/big"
	"regexp"
	"strconv"
	"strings"
	"sync"
	"unicode/utf8"

	"verifharness/internal/jsonv"
)

// Schema is an OpenAPI 3.0 Schema Object: just its JSON object.
type Schema = *jsonv.Value

// Resolver returns the target of a `$ref` string such as
// "#/components/schemas/X".
type Resolver func(ref string) (*jsonv.Value, bool)

// RefPrefix is the only reference form the generators produce.
const RefPrefix = "#/components/schemas/"

// MapResolver resolves "#/components/schemas/<name>" in a components/schemas map.
func MapResolver(schemas map[string]*jsonv.Value) Resolver {
	return func(ref string) (*jsonv.Value, bool) {
		if !strings.HasPrefix(ref, RefPrefix) {
			return nil, false
		}
		name := ref[len(RefPrefix):]
		// JSON pointer unescaping of the last token
		name = strings.ReplaceAll(strings.ReplaceAll(name, "~1", "/"), "~0", "~")
		s, ok := schemas[name]
		return s, ok
	}
}

// Ref builds {"$ref": "#/components/schemas/<name>"}.
func Ref(name string) *jsonv.Value {
	return jsonv.NewObject(jsonv.Member{Name: "$ref", Value: jsonv.NewString(RefPrefix + name)})
}

// SchemaErrorPrefix starts the `why` of a Validate result that is not a verdict
// about the instance but a complaint about the schema (malformed keyword value,
// unresolvable or non-productive $ref). Generated schemas never cause it.
const SchemaErrorPrefix = "schema-error: "

// maxHops bounds the number of schema steps ($ref, allOf, anyOf, oneOf, not)
// taken without descending into the instance; more means a $ref cycle that
// never consumes input.
const maxHops = 64

// Validate reports whether inst is valid against s. why is "" when ok, else
// "<instance pointer>: <keyword>: <detail>" for the first failure found.
func Validate(s *jsonv.Value, inst *jsonv.Value, res Resolver) (ok bool, why string) {
	v := validator{res: res}
	why = v.check(s, inst, "", 0)
	return why == "", why
}

type validator struct {
	res Resolver
}

func schemaErr(path, format string, a ...any) string {
	return SchemaErrorPrefix + path + ": " + fmt.Sprintf(format, a...)
}

func fail(path, kw, format string, a ...any) string {
	p := path
	if p == "" {
		p = "(root)"
	}
	return p + ": " + kw + ": " + fmt.Sprintf(format, a...)
}

// deref follows $ref chains. It returns the first schema object without $ref.
func deref(s *jsonv.Value, res Resolver) (*jsonv.Value, string) {
	for i := 0; i < maxHops; i++ {
		if s == nil || s.Kind != jsonv.Object {
			return nil, "schema is not an object"
		}
		r := s.Get("$ref")
		if r == nil {
			return s, ""
		}
		if r.Kind != jsonv.String {
			return nil, "$ref is not a string"
		}
		if res == nil {
			return nil, "no resolver for $ref " + r.Str
		}
		t, ok := res(r.Str)
		if !ok || t == nil {
			return nil, "unresolvable $ref " + r.Str
		}
		s = t
	}
	return nil, "$ref cycle"
}

func typeName(v *jsonv.Value) string {
	switch v.Kind {
	case jsonv.Null:
		return "null"
	case jsonv.Bool:
		return "boolean"
	case jsonv.Number:
		if v.Num.IsInteger() {
			return "integer"
		}
		return "number"
	case jsonv.String:
		return "string"
	case jsonv.Array:
		return "array"
	case jsonv.Object:
		return "object"
	}
	return "?"
}

// typeAdmits: does an instance of kind/value v belong to the OAS type t.
func typeAdmits(t string, v *jsonv.Value) (admits, known bool) {
	switch t {
	case "string":
		return v.Kind == jsonv.String, true
	case "number":
		return v.Kind == jsonv.Number, true
	case "integer":
		return v.Kind == jsonv.Number && v.Num.IsInteger(), true
	case "boolean":
		return v.Kind == jsonv.Bool, true
	case "array":
		return v.Kind == jsonv.Array, true
	case "object":
		return v.Kind == jsonv.Object, true
	}
	return false, false
}

func isTrue(v *jsonv.Value) bool { return v != nil && v.Kind == jsonv.Bool && v.B }

// nonNegInt reads a keyword value that must be a non-negative integer.
func nonNegInt(v *jsonv.Value) (int64, bool) {
	if v == nil || v.Kind != jsonv.Number || !v.Num.IsInteger() {
		return 0, false
	}
	if v.Num.IsZero() {
		return 0, true
	}
	if v.Num.Neg {
		return 0, false
	}
	r := v.Num.Rat()
	if r == nil || !r.Num().IsInt64() {
		return 1 << 62, true // absurdly large bound: behaves as infinity
	}
	return r.Num().Int64(), true
}

func (v *validator) check(s, inst *jsonv.Value, path string, hops int) string {
	if hops > maxHops {
		return schemaErr(path, "more than %d schema steps without consuming input ($ref cycle)", maxHops)
	}
	s, msg := deref(s, v.res)
	if msg != "" {
		return schemaErr(path, "%s", msg)
	}

	// ---- type / nullable
	if t := s.Get("type"); t != nil {
		if t.Kind != jsonv.String {
			return schemaErr(path, "type is not a string")
		}
		if inst.Kind == jsonv.Null {
			if !isTrue(s.Get("nullable")) {
				return fail(path, "type", "null is not of type %s (not nullable)", t.Str)
			}
		} else {
			ok, known := typeAdmits(t.Str, inst)
			if !known {
				return schemaErr(path, "unknown type %q", t.Str)
			}
			if !ok {
				return fail(path, "type", "%s is not of type %s", typeName(inst), t.Str)
			}
		}
	}

	// ---- enum
	if e := s.Get("enum"); e != nil {
		if e.Kind != jsonv.Array {
			return schemaErr(path, "enum is not an array")
		}
		found := false
		for _, m := range e.Elems {
			if jsonv.Equal(m, inst) {
				found = true
				break
			}
		}
		if !found {
			return fail(path, "enum", "%s is not one of the %d values", clip(inst), len(e.Elems))
		}
	}

	switch inst.Kind {
	case jsonv.Number:
		if w := v.checkNumber(s, inst, path); w != "" {
			return w
		}
	case jsonv.String:
		if w := v.checkString(s, inst, path); w != "" {
			return w
		}
	case jsonv.Array:
		if w := v.checkArray(s, inst, path); w != "" {
			return w
		}
	case jsonv.Object:
		if w := v.checkObject(s, inst, path); w != "" {
			return w
		}
	}

	// ---- combinators
	if a := s.Get("allOf"); a != nil {
		if a.Kind != jsonv.Array {
			return schemaErr(path, "allOf is not an array")
		}
		for i, m := range a.Elems {
			if w := v.check(m, inst, path, hops+1); w != "" {
				if strings.HasPrefix(w, SchemaErrorPrefix) {
					return w
				}
				return fail(path, "allOf", "member %d: %s", i, w)
			}
		}
	}
	if a := s.Get("anyOf"); a != nil {
		if a.Kind != jsonv.Array {
			return schemaErr(path, "anyOf is not an array")
		}
		n, w := v.count(a.Elems, inst, path, hops)
		if w != "" {
			return w
		}
		if n == 0 {
			return fail(path, "anyOf", "no variant of %d matches", len(a.Elems))
		}
	}
	if a := s.Get("oneOf"); a != nil {
		if a.Kind != jsonv.Array {
			return schemaErr(path, "oneOf is not an array")
		}
		n, w := v.count(a.Elems, inst, path, hops)
		if w != "" {
			return w
		}
		if n != 1 {
			return fail(path, "oneOf", "%d variants of %d match, want exactly 1", n, len(a.Elems))
		}
	}
	if n := s.Get("not"); n != nil {
		w := v.check(n, inst, path, hops+1)
		if strings.HasPrefix(w, SchemaErrorPrefix) {
			return w
		}
		if w == "" {
			return fail(path, "not", "the negated schema matches")
		}
	}
	return ""
}

// count returns how many of the variants accept inst.
func (v *validator) count(variants []*jsonv.Value, inst *jsonv.Value, path string, hops int) (int, string) {
	n := 0
	for _, m := range variants {
		w := v.check(m, inst, path, hops+1)
		if strings.HasPrefix(w, SchemaErrorPrefix) {
			return 0, w
		}
		if w == "" {
			n++
		}
	}
	return n, ""
}

// ---------------------------------------------------------------- numbers

// adjExp is the decimal order of magnitude of a non-zero number:
// number of mantissa digits + exponent.
func adjExp(n *jsonv.Num) *big.Int {
	d := int64(len(n.Mant.String()))
	return new(big.Int).Add(n.Exp, big.NewInt(d))
}

func cmpAbs(a, b *jsonv.Num) int {
	if a.IsZero() || b.IsZero() {
		switch {
		case a.IsZero() && b.IsZero():
			return 0
		case a.IsZero():
			return -1
		}
		return 1
	}
	if c := adjExp(a).Cmp(adjExp(b)); c != 0 {
		return c
	}
	// same order of magnitude: the exponents differ by at most the digit count
	d := new(big.Int).Sub(a.Exp, b.Exp)
	ma, mb := new(big.Int).Set(a.Mant), new(big.Int).Set(b.Mant)
	k := d.Int64() // small by construction
	ten := big.NewInt(10)
	if k > 0 {
		ma.Mul(ma, new(big.Int).Exp(ten, big.NewInt(k), nil))
	} else if k < 0 {
		mb.Mul(mb, new(big.Int).Exp(ten, big.NewInt(-k), nil))
	}
	return ma.Cmp(mb)
}

// CmpNum compares two exact decimal numbers (-1, 0, +1) without ever
// materialising a large power of ten.
func CmpNum(a, b *jsonv.Num) int {
	sa, sb := 0, 0
	if !a.IsZero() {
		sa = 1
		if a.Neg {
			sa = -1
		}
	}
	if !b.IsZero() {
		sb = 1
		if b.Neg {
			sb = -1
		}
	}
	switch {
	case sa != sb:
		if sa < sb {
			return -1
		}
		return 1
	case sa == 0:
		return 0
	case sa > 0:
		return cmpAbs(a, b)
	}
	return -cmpAbs(a, b)
}

var (
	bigTwo  = big.NewInt(2)
	bigFive = big.NewInt(5)
)

// IsMultiple reports whether x / m is an integer (m != 0), exactly.
func IsMultiple(x, m *jsonv.Num) bool {
	if x.IsZero() {
		return true
	}
	d := new(big.Int).Sub(x.Exp, m.Exp)
	small := d.IsInt64() && d.Int64() >= -4096 && d.Int64() <= 4096
	if !small && d.Sign() < 0 && d.IsInt64() && -d.Int64() <= int64(len(x.Mant.String())) {
		small = true // a very long mantissa could still supply the powers of ten
	}
	if small {
		k := d.Int64()
		num := new(big.Int).Set(x.Mant)
		den := new(big.Int).Set(m.Mant)
		if k >= 0 {
			num.Mul(num, new(big.Int).Exp(big.NewInt(10), big.NewInt(k), nil))
		} else {
			den.Mul(den, new(big.Int).Exp(big.NewInt(10), big.NewInt(-k), nil))
		}
		return new(big.Int).Rem(num, den).Sign() == 0
	}
	if d.Sign() < 0 {
		// x = Mx*10^-K / Mm with K huge: the mantissa of x is not a multiple
		// of 10 (normal form) so the quotient cannot be an integer unless
		// 10^K divides Mx*..., impossible for K > digits(Mx).
		return false
	}
	// K huge and positive: all factors 2 and 5 of Mm are supplied by 10^K.
	c := new(big.Int).Set(m.Mant)
	q, r := new(big.Int), new(big.Int)
	for _, p := range []*big.Int{bigTwo, bigFive} {
		for {
			q.QuoRem(c, p, r)
			if r.Sign() != 0 {
				break
			}
			c.Set(q)
		}
	}
	return new(big.Int).Rem(x.Mant, c).Sign() == 0
}

func (v *validator) checkNumber(s, inst *jsonv.Value, path string) string {
	x := inst.Num
	if m := s.Get("minimum"); m != nil {
		if m.Kind != jsonv.Number {
			return schemaErr(path, "minimum is not a number")
		}
		c := CmpNum(x, m.Num)
		excl := s.Get("exclusiveMinimum")
		if excl != nil && excl.Kind != jsonv.Bool {
			return schemaErr(path, "exclusiveMinimum is not a boolean (OAS 3.0 form)")
		}
		if c < 0 || (c == 0 && isTrue(excl)) {
			return fail(path, "minimum", "%s below %s (exclusive=%v)", clip(inst), clip(m), isTrue(excl))
		}
	}
	if m := s.Get("maximum"); m != nil {
		if m.Kind != jsonv.Number {
			return schemaErr(path, "maximum is not a number")
		}
		c := CmpNum(x, m.Num)
		excl := s.Get("exclusiveMaximum")
		if excl != nil && excl.Kind != jsonv.Bool {
			return schemaErr(path, "exclusiveMaximum is not a boolean (OAS 3.0 form)")
		}
		if c > 0 || (c == 0 && isTrue(excl)) {
			return fail(path, "maximum", "%s above %s (exclusive=%v)", clip(inst), clip(m), isTrue(excl))
		}
	}
	if m := s.Get("multipleOf"); m != nil {
		if m.Kind != jsonv.Number || m.Num.IsZero() || m.Num.Neg {
			return schemaErr(path, "multipleOf is not a number > 0")
		}
		if !IsMultiple(x, m.Num) {
			return fail(path, "multipleOf", "%s is not a multiple of %s", clip(inst), clip(m))
		}
	}
	return ""
}

// ---------------------------------------------------------------- strings

var reCache sync.Map // pattern -> *regexp.Regexp or error

func compilePattern(p string) (*regexp.Regexp, error) {
	if c, ok := reCache.Load(p); ok {
		if re, ok := c.(*regexp.Regexp); ok {
			return re, nil
		}
		return nil, c.(error)
	}
	re, err := regexp.Compile(p)
	if err != nil {
		reCache.Store(p, err)
		return nil, err
	}
	reCache.Store(p, re)
	return re, nil
}

func (v *validator) checkString(s, inst *jsonv.Value, path string) string {
	n := int64(utf8.RuneCountInString(inst.Str))
	if m := s.Get("minLength"); m != nil {
		k, ok := nonNegInt(m)
		if !ok {
			return schemaErr(path, "minLength is not a non-negative integer")
		}
		if n < k {
			return fail(path, "minLength", "%d code points < %d", n, k)
		}
	}
	if m := s.Get("maxLength"); m != nil {
		k, ok := nonNegInt(m)
		if !ok {
			return schemaErr(path, "maxLength is not a non-negative integer")
		}
		if n > k {
			return fail(path, "maxLength", "%d code points > %d", n, k)
		}
	}
	if p := s.Get("pattern"); p != nil {
		if p.Kind != jsonv.String {
			return schemaErr(path, "pattern is not a string")
		}
		re, err := compilePattern(p.Str)
		if err != nil {
			return schemaErr(path, "pattern %q does not compile as RE2: %v", p.Str, err)
		}
		if !re.MatchString(inst.Str) {
			return fail(path, "pattern", "%s does not match %s", clip(inst), strconv.Quote(p.Str))
		}
	}
	return ""
}

// ---------------------------------------------------------------- arrays

func (v *validator) checkArray(s, inst *jsonv.Value, path string) string {
	n := int64(len(inst.Elems))
	if m := s.Get("minItems"); m != nil {
		k, ok := nonNegInt(m)
		if !ok {
			return schemaErr(path, "minItems is not a non-negative integer")
		}
		if n < k {
			return fail(path, "minItems", "%d items < %d", n, k)
		}
	}
	if m := s.Get("maxItems"); m != nil {
		k, ok := nonNegInt(m)
		if !ok {
			return schemaErr(path, "maxItems is not a non-negative integer")
		}
		if n > k {
			return fail(path, "maxItems", "%d items > %d", n, k)
		}
	}
	if u := s.Get("uniqueItems"); u != nil {
		if u.Kind != jsonv.Bool {
			return schemaErr(path, "uniqueItems is not a boolean")
		}
		if u.B {
			for i := range inst.Elems {
				for j := 0; j < i; j++ {
					if jsonv.Equal(inst.Elems[i], inst.Elems[j]) {
						return fail(path, "uniqueItems", "items %d and %d are equal", j, i)
					}
				}
			}
		}
	}
	if it := s.Get("items"); it != nil {
		if it.Kind != jsonv.Object {
			return schemaErr(path, "items is not a schema object")
		}
		for i, e := range inst.Elems {
			if w := v.check(it, e, path+"/"+strconv.Itoa(i), 0); w != "" {
				return w
			}
		}
	}
	return ""
}

// ---------------------------------------------------------------- objects

// PointerToken escapes a member name for use in a JSON pointer.
func PointerToken(name string) string {
	return strings.ReplaceAll(strings.ReplaceAll(name, "~", "~0"), "/", "~1")
}

func (v *validator) checkObject(s, inst *jsonv.Value, path string) string {
	n := int64(len(inst.Members))
	if m := s.Get("minProperties"); m != nil {
		k, ok := nonNegInt(m)
		if !ok {
			return schemaErr(path, "minProperties is not a non-negative integer")
		}
		if n < k {
			return fail(path, "minProperties", "%d members < %d", n, k)
		}
	}
	if m := s.Get("maxProperties"); m != nil {
		k, ok := nonNegInt(m)
		if !ok {
			return schemaErr(path, "maxProperties is not a non-negative integer")
		}
		if n > k {
			return fail(path, "maxProperties", "%d members > %d", n, k)
		}
	}
	if r := s.Get("required"); r != nil {
		if r.Kind != jsonv.Array {
			return schemaErr(path, "required is not an array")
		}
		for _, name := range r.Elems {
			if name.Kind != jsonv.String {
				return schemaErr(path, "required contains a non-string")
			}
			if inst.Get(name.Str) == nil {
				return fail(path, "required", "member %s is missing", strconv.Quote(name.Str))
			}
		}
	}
	props := s.Get("properties")
	if props != nil && props.Kind != jsonv.Object {
		return schemaErr(path, "properties is not an object")
	}
	ap := s.Get("additionalProperties")
	if ap != nil && ap.Kind != jsonv.Bool && ap.Kind != jsonv.Object {
		return schemaErr(path, "additionalProperties is neither a boolean nor a schema")
	}
	for _, m := range inst.Members {
		sub := path + "/" + PointerToken(m.Name)
		if props != nil {
			if ps := props.Get(m.Name); ps != nil {
				if w := v.check(ps, m.Value, sub, 0); w != "" {
					return w
				}
				continue
			}
		}
		switch {
		case ap == nil:
		case ap.Kind == jsonv.Bool:
			if !ap.B {
				return fail(path, "additionalProperties", "member %s is not declared", strconv.Quote(m.Name))
			}
		default:
			if w := v.check(ap, m.Value, sub, 0); w != "" {
				return w
			}
		}
	}
	return ""
}

func clip(v *jsonv.Value) string {
	s := string(jsonv.Compact(v))
	if len(s) > 60 {
		s = s[:57] + "..."
	}
	return s
}

// ---------------------------------------------------------------- spelling

// IntegerText reports whether a number is spelled as an integer literal:
// -?digits, no fraction and no exponent.
func IntegerText(n *jsonv.Num) bool {
	t := n.Text
	if t == "" {
		t = n.Plain()
	}
	return !strings.ContainsAny(t, ".eE")
}

// IntegerSpelling reports whether every number in inst whose value is a
// mathematical integer is written without fraction and exponent part. JSON
// Schema draft 4 defines the type "integer" by that spelling, later drafts by
// the value; the Wright draft OAS 3.0 points to is silent. Callers restrict
// their deciding domain with this predicate (or the finer, schema-aware
// Undecided, which only objects when such a number meets `type: integer`).
func IntegerSpelling(inst *jsonv.Value) bool {
	ok := true
	inst.Walk(func(v *jsonv.Value) {
		if v.Kind == jsonv.Number && v.Num.IsInteger() && !IntegerText(v.Num) {
			ok = false
		}
	})
	return ok
}
