package schemaref

// PatternCase is one regular expression of the portable list with example
// subjects.
type PatternCase struct {
	Pattern     string
	Matching    []string // subjects in which the pattern is found
	NonMatching []string // subjects in which it is not found
}

// Patterns is the portable pattern list: regular expressions whose meaning (as
// an unanchored search) is the same in RE2 (Go regexp), ECMA-262 (the dialect
// OAS names for `pattern`) and Python `re`, under these conditions:
//
//   - only literals, classes with ASCII ranges, negated classes, `.`, `\d`,
//     `\w`, `\b`, `^`, `$`, groups, alternation and greedy counted/starred
//     repetition are used: no `\s` (ECMA: Unicode spaces, RE2: 5 characters,
//     Python: 6), no back-references, no look-around, no flags, no lazy
//     quantifiers next to anchors that could change the found/not-found answer;
//   - `\d`, `\w`, `\b` are ASCII-only in ECMA-262 and RE2; Python needs
//     re.ASCII for that (xcheck.py sets it), otherwise "١٢٣" matches `^\d{3}$`;
//   - `$` is "end of input" in ECMA-262 (no m flag) and RE2; Python's `$` also
//     matches before a final "\n" (xcheck.py rewrites it to `\Z`);
//   - `.` and quantified classes count UTF-16 code units in ECMA-262 without
//     the u flag and code points elsewhere, and ECMA's `.` rejects \r, U+2028
//     and U+2029 in addition to \n: subjects with such characters are outside
//     the portable domain (Undecided reports them).
//
// patterns_test.go evaluates every case and a few hundred random ASCII
// subjects in Go, Python and (when node is installed) V8 and requires equal
// answers.
var Patterns = []PatternCase{
	{`^[a-z]+$`,
		[]string{"a", "abc", "hello", "zzzzzzzz", "qwertyuiop"},
		[]string{"", "Abc", "abc1", "ab c", "1", "abc-"}},
	{`^\d{3}$`,
		[]string{"000", "123", "987"},
		[]string{"", "12", "1234", "12a", "abc", " 123"}},
	{`^[A-Z][a-z0-9_]*$`,
		[]string{"A", "Ab", "Hello_1", "Z9_", "Camel"},
		[]string{"", "a", "aB", "AB", "A-b", "_A"}},
	{`foo`,
		[]string{"foo", "xfoox", "foofoo", "a foo b", "food"},
		[]string{"", "fo", "f oo", "FOO", "oof", "fOo"}},
	{`^(ab|cd)+$`,
		[]string{"ab", "cd", "abcd", "cdabab", "abababab"},
		[]string{"", "a", "abc", "ac", "abd", "ab cd"}},
	{`^.{2,4}$`,
		[]string{"ab", "abc", "abcd", "a b", "!!", "1234"},
		[]string{"", "a", "abcde", "abcdefgh"}},
	{`^[^@ ]+@[^@ ]+$`,
		[]string{"a@b", "user@example.com", "x.y@z", "1@2"},
		[]string{"", "a@", "@b", "a b@c", "a@@b", "ab", "a@b c"}},
	{`^[0-9a-f]{8}$`,
		[]string{"00000000", "deadbeef", "0123abcd"},
		[]string{"", "deadbee", "deadbeeff", "DEADBEEF", "0123abcg"}},
	{`^-?[0-9]+$`,
		[]string{"0", "-1", "123456", "-007"},
		[]string{"", "-", "1.5", "+1", "1-", "--1", "12a"}},
	{`^[A-Za-z_][A-Za-z0-9_]*$`,
		[]string{"x", "_", "snake_case", "Camel9", "__init__"},
		[]string{"", "9x", "a-b", "a b", "a.b", "$x"}},
	{`^\w+$`,
		[]string{"a", "A_1", "word", "123", "_"},
		[]string{"", "a b", "a-b", "a.", "!", "a/b"}},
	{`^[a-z]{2}(-[A-Z]{2})?$`,
		[]string{"en", "en-US", "de-DE", "fr"},
		[]string{"", "e", "en-", "en-us", "EN", "en-USA", "eng"}},
	{`bar$`,
		[]string{"bar", "foobar", "bar bar", "-bar"},
		[]string{"", "bars", "ba", "BAR", "bar ", "barb"}},
	{`^x`,
		[]string{"x", "xyz", "x ", "xx"},
		[]string{"", "ax", "X", " x", "yx"}},
	{`^[0-9]{1,3}(\.[0-9]{1,3}){3}$`,
		[]string{"1.2.3.4", "192.168.0.1", "000.000.000.000"},
		[]string{"", "1.2.3", "1.2.3.4.5", "a.b.c.d", "1..2.3", "1234.1.1.1", "1,2,3,4"}},
	{`^(true|false)$`,
		[]string{"true", "false"},
		[]string{"", "True", "truefalse", "tru", " false", "0"}},
	{`^[a-z]+(-[a-z]+)*$`,
		[]string{"a", "foo-bar", "a-b-c", "kebab-case-name"},
		[]string{"", "-a", "a-", "a--b", "A-b", "a_b"}},
	{`^\d{4}-\d{2}-\d{2}$`,
		[]string{"2020-01-02", "0000-00-00", "1999-12-31"},
		[]string{"", "2020-1-02", "20200102", "2020-01-02T", "2020/01/02", "abcd-ef-gh"}},
	{`^[ -~]*$`,
		[]string{"", "hello world!", "~", "a\"b\\c", "0123 {}"},
		[]string{"é", "tab\there", "naïve", "日本"}},
	{`^[^0-9]+$`,
		[]string{"abc", "é!", "_", "a b", "-.-"},
		[]string{"", "a1", "123", "1a", "a 2 b"}},
	{`[0-9]$`,
		[]string{"a1", "9", "x-0", "12"},
		[]string{"", "1a", "a", "9 ", "nine"}},
	{`^#[0-9A-Fa-f]{6}$`,
		[]string{"#000000", "#FFaa00", "#abcdef"},
		[]string{"", "000000", "#00000", "#0000000", "#gggggg", "# 00000"}},
	{`^\+?[1-9][0-9]{6,14}$`,
		[]string{"+12345678", "1234567", "+491701234567", "123456789012345"},
		[]string{"", "0123456", "+", "12345", "+1234567890123456", "12345a7", "++1234567"}},
	{`^[a-c]x?[d-f]$`,
		[]string{"ad", "axd", "cf", "bxe"},
		[]string{"", "a", "axxd", "dd", "ag", "xd", "adx"}},
	{`\bcat\b`,
		[]string{"cat", "a cat!", "cat-flap", "(cat)"},
		[]string{"", "cats", "concat", "Cat", "c at", "cat_1"}},
	{`^(a|bc)*d$`,
		[]string{"d", "ad", "bcd", "abcad", "aaad"},
		[]string{"", "a", "bd", "cd", "abd", "dd", "D"}},
}

var patternIndex = func() map[string]*PatternCase {
	m := make(map[string]*PatternCase, len(Patterns))
	for i := range Patterns {
		m[Patterns[i].Pattern] = &Patterns[i]
	}
	return m
}()

// PortablePattern reports whether p is one of Patterns.
func PortablePattern(p string) bool { return patternIndex[p] != nil }

// portableSubject: no character on which the three dialects can disagree for
// patterns of the list (see Patterns).
func portableSubject(s string) bool {
	for _, r := range s {
		if r == '\r' || r == 0x2028 || r == 0x2029 || r > 0xFFFF {
			return false
		}
	}
	return true
}
