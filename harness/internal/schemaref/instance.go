package schemaref

import (
	"math/big"
	"strconv"

	"verifharness/internal/ev"
	"verifharness/internal/jsonv"
)

// GenInstance returns a random instance that is valid against s (it is checked
// with Validate; generation is retried a few times), or nil when none was
// found. Strings without a pattern are ASCII letters/digits and sometimes
// non-ASCII or escape-heavy text, optional members come and go, nullable
// schemas sometimes yield null, arrays have minItems..maxItems items, member
// names are never repeated. Numbers are dyadic rationals; integers are spelled
// without fraction and exponent.
func GenInstance(s *jsonv.Value, res Resolver, rng *ev.Rand) *jsonv.Value {
	for attempt := 0; attempt < 8; attempt++ {
		g := &igen{res: res, rng: rng}
		v := g.gen(s, 0)
		if v == nil {
			continue
		}
		if ok, _ := Validate(s, v, res); ok {
			return v
		}
	}
	return nil
}

const (
	softDepth = 4  // below this depth choices are free
	hardDepth = 14 // beyond this depth generation gives up
	infRank   = 1000
)

type igen struct {
	res Resolver
	rng *ev.Rand
}

// rank is the minimal nesting depth of an instance of s (infRank when s has
// no finite instance along acyclic derivations).
func (g *igen) rank(s *jsonv.Value, visiting map[*jsonv.Value]bool) int {
	s, msg := deref(s, g.res)
	if msg != "" || visiting[s] {
		return infRank
	}
	visiting[s] = true
	defer delete(visiting, s)
	if isTrue(s.Get("nullable")) && s.Get("type") != nil {
		return 0
	}
	r := 0
	up := func(x int) {
		if x > r {
			r = x
		}
	}
	if a := s.Get("allOf"); a != nil && a.Kind == jsonv.Array {
		for _, m := range a.Elems {
			up(g.rank(m, visiting))
		}
	}
	for _, kw := range []string{"oneOf", "anyOf"} {
		if a := s.Get(kw); a != nil && a.Kind == jsonv.Array && len(a.Elems) > 0 {
			best := infRank
			for _, m := range a.Elems {
				if x := g.rank(m, visiting); x < best {
					best = x
				}
			}
			up(best)
		}
	}
	switch g.kindOf(s) {
	case "object":
		props := s.Get("properties")
		if req := s.Get("required"); req != nil && req.Kind == jsonv.Array {
			for _, n := range req.Elems {
				if props != nil && n.Kind == jsonv.String {
					if ps := props.Get(n.Str); ps != nil {
						up(1 + g.rank(ps, visiting))
					}
				}
			}
		}
	case "array":
		if n, ok := getInt(s, "minItems"); ok && n > 0 {
			if it := s.Get("items"); it != nil {
				up(1 + g.rank(it, visiting))
			}
		}
	}
	if r > infRank {
		r = infRank
	}
	return r
}

// kindOf: the JSON type an instance of s is generated with ("" = no idea).
func (g *igen) kindOf(s *jsonv.Value) string {
	if t, ok := getStr(s, "type"); ok {
		return t
	}
	has := func(ks ...string) bool {
		for _, k := range ks {
			if s.Get(k) != nil {
				return true
			}
		}
		return false
	}
	switch {
	case has("properties", "required", "additionalProperties", "minProperties", "maxProperties"):
		return "object"
	case has("items", "minItems", "maxItems", "uniqueItems"):
		return "array"
	case has("minLength", "maxLength", "pattern"):
		return "string"
	case has("minimum", "maximum", "multipleOf"):
		return "number"
	}
	return ""
}

func (g *igen) gen(s *jsonv.Value, depth int) *jsonv.Value {
	if depth > hardDepth {
		return nil
	}
	s, msg := deref(s, g.res)
	if msg != "" {
		return nil
	}
	minimal := depth >= softDepth
	if isTrue(s.Get("nullable")) && s.Get("type") != nil && s.Get("enum") == nil {
		if (minimal && g.rng.Chance(70)) || g.rng.Chance(12) {
			return jsonv.NewNull()
		}
	}
	if e := s.Get("enum"); e != nil && e.Kind == jsonv.Array && len(e.Elems) > 0 {
		return ev.Pick(g.rng, e.Elems).Clone()
	}
	if a := s.Get("allOf"); a != nil && a.Kind == jsonv.Array && len(a.Elems) > 0 {
		return g.genAllOf(s, a, depth)
	}
	for _, kw := range []string{"oneOf", "anyOf"} {
		if a := s.Get(kw); a != nil && a.Kind == jsonv.Array && len(a.Elems) > 0 {
			return g.genSum(s, a, depth, minimal)
		}
	}
	switch g.kindOf(s) {
	case "string":
		return g.genString(s)
	case "integer":
		return g.genNumber(s, true)
	case "number":
		return g.genNumber(s, false)
	case "boolean":
		return jsonv.NewBool(g.rng.Bool())
	case "array":
		return g.genArray(s, depth, minimal)
	case "object":
		return g.genObject(s, depth, minimal)
	}
	return randomJSON(g.rng, 1, true)
}

func (g *igen) genAllOf(s, a *jsonv.Value, depth int) *jsonv.Value {
	members := append([]*jsonv.Value(nil), a.Elems...)
	if g.kindOf(s) != "" {
		// the schema's own keywords act as one more member
		own := &ob{}
		for _, m := range s.Members {
			if m.Name != "allOf" {
				own.set(m.Name, m.Value)
			}
		}
		members = append(members, own.val())
	}
	var merged []jsonv.Member
	seen := map[string]bool{}
	var first *jsonv.Value
	for _, m := range members {
		v := g.gen(m, depth)
		if v == nil {
			return nil
		}
		if first == nil {
			first = v
		}
		if v.Kind != jsonv.Object {
			continue
		}
		for _, mem := range v.Members {
			if !seen[mem.Name] {
				seen[mem.Name] = true
				merged = append(merged, mem)
			}
		}
	}
	if first.Kind != jsonv.Object {
		return first
	}
	g.shuffle(merged)
	return jsonv.NewObject(merged...)
}

func (g *igen) shuffle(m []jsonv.Member) {
	for i := len(m) - 1; i > 0; i-- {
		j := g.rng.Intn(i + 1)
		m[i], m[j] = m[j], m[i]
	}
}

func (g *igen) genSum(s, a *jsonv.Value, depth int, minimal bool) *jsonv.Value {
	n := len(a.Elems)
	order := make([]int, n)
	for i := range order {
		order[i] = i
	}
	for i := n - 1; i > 0; i-- {
		j := g.rng.Intn(i + 1)
		order[i], order[j] = order[j], order[i]
	}
	if minimal {
		// lowest rank first (stable for equal ranks)
		ranks := make([]int, n)
		for i, m := range a.Elems {
			ranks[i] = g.rank(m, map[*jsonv.Value]bool{})
		}
		for i := 1; i < n; i++ {
			for j := i; j > 0 && ranks[order[j]] < ranks[order[j-1]]; j-- {
				order[j], order[j-1] = order[j-1], order[j]
			}
		}
	}
	for _, i := range order {
		v := g.gen(a.Elems[i], depth)
		if v == nil {
			continue
		}
		if key, prop, ok := discriminatorKey(s, a.Elems[i]); ok && v.Kind == jsonv.Object {
			set := false
			for k := range v.Members {
				if v.Members[k].Name == prop {
					v.Members[k].Value = jsonv.NewString(key)
					set = true
				}
			}
			if !set {
				v.Members = append(v.Members, jsonv.Member{Name: prop, Value: jsonv.NewString(key)})
			}
		}
		return v
	}
	return nil
}

// discriminatorKey returns the discriminator value that selects variant.
func discriminatorKey(s, variant *jsonv.Value) (key, prop string, ok bool) {
	d := s.Get("discriminator")
	if d == nil || d.Kind != jsonv.Object {
		return "", "", false
	}
	prop, ok = getStr(d, "propertyName")
	if !ok {
		return "", "", false
	}
	ref, isRef := getStr(variant, "$ref")
	if !isRef {
		return "", "", false
	}
	if mp := d.Get("mapping"); mp != nil && mp.Kind == jsonv.Object {
		for _, m := range mp.Members {
			if m.Value.Kind == jsonv.String && m.Value.Str == ref {
				return m.Name, prop, true
			}
		}
	}
	if len(ref) > len(RefPrefix) && ref[:len(RefPrefix)] == RefPrefix {
		return ref[len(RefPrefix):], prop, true
	}
	return "", "", false
}

// ---------------------------------------------------------------- numbers

// numRange describes the admissible grid points k*step of a numeric schema.
type numRange struct {
	step       *big.Rat
	kmin, kmax *big.Int // nil = unbounded on that side
}

func numericRange(s *jsonv.Value, integer bool, fineGrid *big.Rat) numRange {
	var step *big.Rat
	m := ratOf(s.Get("multipleOf"))
	switch {
	case m != nil && m.Sign() > 0 && integer:
		step = new(big.Rat).SetInt(m.Num()) // smallest integer multiple of p/q is p
	case m != nil && m.Sign() > 0:
		step = m
	case integer:
		step = big.NewRat(1, 1)
	default:
		step = fineGrid
	}
	r := numRange{step: step}
	if lo := ratOf(s.Get("minimum")); lo != nil {
		q := new(big.Rat).Quo(lo, step)
		r.kmin = ratCeil(q)
		if q.IsInt() && isTrue(s.Get("exclusiveMinimum")) {
			r.kmin.Add(r.kmin, big.NewInt(1))
		}
	}
	if hi := ratOf(s.Get("maximum")); hi != nil {
		q := new(big.Rat).Quo(hi, step)
		r.kmax = ratFloor(q)
		if q.IsInt() && isTrue(s.Get("exclusiveMaximum")) {
			r.kmax.Sub(r.kmax, big.NewInt(1))
		}
	}
	return r
}

func (g *igen) genNumber(s *jsonv.Value, integer bool) *jsonv.Value {
	grid := ev.Pick(g.rng, []*big.Rat{big.NewRat(1, 8), big.NewRat(1, 8), big.NewRat(1, 2), big.NewRat(1, 1), big.NewRat(1, 4)})
	r := numericRange(s, integer, grid)
	window := int64(400)
	if g.rng.Chance(15) {
		window = 1 << 40
	}
	kmin, kmax := r.kmin, r.kmax
	switch {
	case kmin == nil && kmax == nil:
		kmin, kmax = big.NewInt(-window/2), big.NewInt(window/2)
	case kmin == nil:
		kmin = new(big.Int).Sub(kmax, big.NewInt(window))
	case kmax == nil:
		kmax = new(big.Int).Add(kmin, big.NewInt(window))
	}
	// keep |value| <= 2^53 (integers) resp. 2^40 (fractions stay exact in binary64)
	limit := new(big.Rat).SetInt64(maxSafe)
	if !integer {
		limit.SetInt64(1 << 40)
	}
	kl := ratFloor(new(big.Rat).Quo(limit, r.step))
	if nkl := new(big.Int).Neg(kl); kmin.Cmp(nkl) < 0 && kmax.Cmp(nkl) >= 0 {
		kmin = nkl
	}
	if kmax.Cmp(kl) > 0 && kmin.Cmp(kl) <= 0 {
		kmax = kl
	}
	if kmin.Cmp(kmax) > 0 {
		return nil
	}
	span := new(big.Int).Sub(kmax, kmin)
	var k *big.Int
	switch c := g.rng.Intn(100); {
	case c < 15:
		k = new(big.Int).Set(kmin)
	case c < 30:
		k = new(big.Int).Set(kmax)
	default:
		off := new(big.Int).SetUint64(g.rng.Uint64())
		off.Mod(off, new(big.Int).Add(span, big.NewInt(1)))
		k = off.Add(off, kmin)
	}
	v := new(big.Rat).Mul(new(big.Rat).SetInt(k), r.step)
	return ratVal(v)
}

// ---------------------------------------------------------------- strings

const asciiAlnum = "abcdefghijklmnopqrstuvwxyzABCDEFGHIJKLMNOPQRSTUVWXYZ0123456789"

var spicyRunes = []rune{'é', 'ß', 'ñ', 'Ω', 'ж', '中', '日', '한', '😀', '𝄞', '🜁', '"', '\\', '/', '\n', '\t', '\b', '\u0001', '\u007f', ' ', ' ', '́', '‍', '<', '&', '\'', '%', '{', '$'}

func (g *igen) text(n int) string {
	rs := make([]rune, n)
	spicy := g.rng.Chance(30)
	for i := range rs {
		if spicy && g.rng.Chance(45) {
			rs[i] = ev.Pick(g.rng, spicyRunes)
		} else {
			rs[i] = rune(asciiAlnum[g.rng.Intn(len(asciiAlnum))])
		}
	}
	return string(rs)
}

func (g *igen) genString(s *jsonv.Value) *jsonv.Value {
	lo, hasLo := getInt(s, "minLength")
	hi, hasHi := getInt(s, "maxLength")
	if !hasLo {
		lo = 0
	}
	if !hasHi {
		hi = 1 << 30
	}
	if lo > hi {
		return nil
	}
	if p, ok := getStr(s, "pattern"); ok {
		if pc := patternIndex[p]; pc != nil {
			var fit []string
			for _, m := range pc.Matching {
				if l := runeLen(m); l >= lo && l <= hi {
					fit = append(fit, m)
				}
			}
			if len(fit) == 0 {
				return nil
			}
			return jsonv.NewString(ev.Pick(g.rng, fit))
		}
		re, err := compilePattern(p)
		if err != nil {
			return nil
		}
		for try := 0; try < 60; try++ {
			n := lo + g.rng.Intn(6)
			if n > hi {
				n = hi
			}
			t := g.text(n)
			if re.MatchString(t) {
				return jsonv.NewString(t)
			}
		}
		return nil
	}
	var n int
	switch c := g.rng.Intn(100); {
	case c < 25:
		n = lo
	case c < 50 && hasHi && hi <= 64:
		n = hi
	default:
		top := lo + 8
		if top > hi {
			top = hi
		}
		n = lo + g.rng.Intn(top-lo+1)
	}
	return jsonv.NewString(g.text(n))
}

// ---------------------------------------------------------------- arrays

func (g *igen) genArray(s *jsonv.Value, depth int, minimal bool) *jsonv.Value {
	lo, _ := getInt(s, "minItems")
	hi, hasHi := getInt(s, "maxItems")
	if !hasHi {
		hi = lo + 3
	}
	if hi > lo+5 {
		hi = lo + 5
	}
	if lo > hi {
		return nil
	}
	if depth >= 2 && hi > lo+1 {
		hi = lo + 1
	}
	n := lo + g.rng.Intn(hi-lo+1)
	if minimal {
		n = lo
	}
	items := s.Get("items")
	unique := isTrue(s.Get("uniqueItems"))
	elems := make([]*jsonv.Value, 0, n)
	for len(elems) < n {
		var e *jsonv.Value
		ok := false
		for try := 0; try < 12 && !ok; try++ {
			if items != nil {
				e = g.gen(items, depth+1)
			} else {
				e = randomJSON(g.rng, 1, true)
			}
			if e == nil {
				return nil
			}
			ok = true
			if unique {
				for _, x := range elems {
					if jsonv.Equal(x, e) {
						ok = false
						break
					}
				}
			}
		}
		if !ok {
			if len(elems) >= lo {
				break
			}
			return nil
		}
		elems = append(elems, e)
	}
	return jsonv.NewArray(elems...)
}

// ---------------------------------------------------------------- objects

func (g *igen) genObject(s *jsonv.Value, depth int, minimal bool) *jsonv.Value {
	props := s.Get("properties")
	ap := s.Get("additionalProperties")
	closed := ap != nil && ap.Kind == jsonv.Bool && !ap.B
	required := map[string]bool{}
	var reqOrder []string
	if r := s.Get("required"); r != nil && r.Kind == jsonv.Array {
		for _, n := range r.Elems {
			if n.Kind == jsonv.String && !required[n.Str] {
				required[n.Str] = true
				reqOrder = append(reqOrder, n.Str)
			}
		}
	}
	lo, _ := getInt(s, "minProperties")
	hi, hasHi := getInt(s, "maxProperties")
	if !hasHi {
		hi = 1 << 30
	}

	additional := func() *jsonv.Value {
		if ap != nil && ap.Kind == jsonv.Object {
			return g.gen(ap, depth+1)
		}
		return randomJSON(g.rng, 1, true)
	}

	var members []jsonv.Member
	have := map[string]bool{}
	var optional []jsonv.Member // declared, not required, not yet included
	if props != nil && props.Kind == jsonv.Object {
		for _, p := range props.Members {
			if required[p.Name] {
				v := g.gen(p.Value, depth+1)
				if v == nil {
					return nil
				}
				members = append(members, jsonv.Member{Name: p.Name, Value: v})
				have[p.Name] = true
			} else {
				optional = append(optional, p)
			}
		}
	}
	for _, n := range reqOrder {
		if !have[n] { // required but not declared
			if closed {
				return nil
			}
			v := additional()
			if v == nil {
				return nil
			}
			members = append(members, jsonv.Member{Name: n, Value: v})
			have[n] = true
		}
	}
	g.shuffle(optional)
	pInclude := 60
	if minimal {
		pInclude = 0
	}
	for _, p := range optional {
		if len(members) >= hi {
			break
		}
		if len(members) < lo || g.rng.Chance(pInclude) {
			v := g.gen(p.Value, depth+1)
			if v == nil {
				if len(members) < lo {
					continue
				}
				continue
			}
			members = append(members, jsonv.Member{Name: p.Name, Value: v})
			have[p.Name] = true
		}
	}
	// additional members: needed for minProperties, otherwise now and then
	extra := 0
	if !closed {
		if !minimal && g.rng.Chance(15) {
			extra = 1 + g.rng.Intn(2)
		}
		if len(members)+extra < lo {
			extra = lo - len(members)
		}
		if len(members)+extra > hi {
			extra = hi - len(members)
		}
	}
	for i := 0; extra > 0 && i < 64; i++ {
		name := "x_extra_" + strconv.Itoa(i)
		if have[name] || (props != nil && props.Get(name) != nil) {
			continue
		}
		v := additional()
		if v == nil {
			return nil
		}
		members = append(members, jsonv.Member{Name: name, Value: v})
		have[name] = true
		extra--
	}
	if len(members) < lo || len(members) > hi {
		return nil
	}
	g.shuffle(members)
	return jsonv.NewObject(members...)
}

// ---------------------------------------------------------------- arbitrary JSON

var randomNames = []string{"a", "b", "id", "name", "value", "x_extra_0", "kind", "é", "", "A", "items", "0", "a/b", "~t"}

// RandomJSON returns an arbitrary JSON value nested at most depth levels:
// null, booleans, integers (small, and around ±2^31, ±2^53), dyadic fractions,
// strings (plain, non-ASCII, escape-heavy, line separators), arrays and objects
// (no repeated member names).
func RandomJSON(rng *ev.Rand, depth int) *jsonv.Value { return randomJSON(rng, depth, false) }

// randomJSON with safe set keeps integers within ±2^53 and strings free of
// line separators (used for the unconstrained parts of valid instances).
func randomJSON(rng *ev.Rand, depth int, safe bool) *jsonv.Value {
	c := rng.Intn(100)
	if depth <= 0 && c >= 70 {
		c = rng.Intn(70)
	}
	switch {
	case c < 8:
		return jsonv.NewNull()
	case c < 18:
		return jsonv.NewBool(rng.Bool())
	case c < 36:
		switch r := rng.Intn(100); {
		case r < 70 || safe:
			return intVal(int64(rng.Intn(41) - 20))
		case r < 80:
			return intVal(int64(rng.Intn(2)*2-1) * (int64(1)<<31 + int64(rng.Intn(5)-2)))
		case r < 90:
			return intVal(int64(rng.Intn(2)*2-1) * (maxSafe + int64(rng.Intn(5)-2)))
		default:
			return intVal(int64(rng.Uint64() >> 12))
		}
	case c < 46:
		return ratVal(big.NewRat(int64(rng.Intn(1601)-800), int64(1)<<uint(1+rng.Intn(4))))
	case c < 70:
		g := &igen{rng: rng}
		s := g.text(rng.Intn(9))
		if rng.Chance(10) && !safe {
			s += ev.Pick(rng, []string{"\r", " ", " ", "\r\n", "\n"})
		}
		if rng.Chance(15) {
			s = ev.Pick(rng, Patterns).Matching[0]
		}
		return jsonv.NewString(s)
	case c < 85:
		n := rng.Intn(5)
		e := make([]*jsonv.Value, n)
		for i := range e {
			e[i] = randomJSON(rng, depth-1, safe)
		}
		return jsonv.NewArray(e...)
	}
	n := rng.Intn(5)
	var m []jsonv.Member
	seen := map[string]bool{}
	for i := 0; i < n; i++ {
		name := ev.Pick(rng, randomNames)
		if rng.Chance(40) {
			name = ev.Pick(rng, propWords)
		}
		if seen[name] {
			continue
		}
		seen[name] = true
		m = append(m, jsonv.Member{Name: name, Value: randomJSON(rng, depth-1, safe)})
	}
	return jsonv.NewObject(m...)
}
