// Package jsonv is an exact JSON value model used as a reference by several
// monitors. It is written from RFC 8259 only (no encoding/json, no jx):
//
//   - Parse is a strict RFC 8259 parser: exactly one value, only the four JSON
//     whitespace characters, the RFC number grammar (no leading zeros, no '+',
//     no bare '.', no NaN/Infinity), only the RFC string escapes, no unescaped
//     control characters, well-formed UTF-8 only, no BOM, nothing after the value.
//   - Numbers are kept exactly, as sign * Mant * 10^Exp read from the decimal
//     text (never through a float); Num.Rat materialises a *big.Rat when the
//     exponent is small enough, Num.Equal never materialises a power of ten.
//   - Strings are decoded to Go strings: escapes resolved, \ud83d\ude00 style
//     surrogate pairs combined. An unpaired surrogate escape has no Unicode
//     scalar value; it is decoded to U+FFFD and the value is flagged
//     (HasLoneSurrogates) because equality of such texts is not defined by the RFC.
//   - Objects are ordered member lists; duplicate names are kept and flagged
//     (HasDuplicateKeys) because RFC 8259 §4 leaves their meaning undefined.
//
// Equal is semantic equality of two trees: same kind and same number / same
// code point sequence / same elements in order / same name->value mapping
// regardless of member order. It is only meaningful (an equivalence that matches
// "denote the same JSON value") on trees without the two flags above.
package jsonv

import (
	"fmt"
	"math/big"
	"sort"
	"strconv"
	"strings"
	"unicode/utf8"

	"verifharness/internal/ev"
)

// Kind is the JSON type of a Value.
type Kind uint8

const (
	Null Kind = iota
	Bool
	Number
	String
	Array
	Object
)

func (k Kind) String() string {
	switch k {
	case Null:
		return "null"
	case Bool:
		return "bool"
	case Number:
		return "number"
	case String:
		return "string"
	case Array:
		return "array"
	case Object:
		return "object"
	}
	return "invalid"
}

// Member is one name/value pair of an object, in source order.
type Member struct {
	Name              string
	NameLoneSurrogate bool // the name contained an unpaired surrogate escape (decoded as U+FFFD)
	Value             *Value
}

// Value is one node of the tree.
type Value struct {
	Kind    Kind
	B       bool     // Bool
	Num     *Num     // Number
	Str     string   // String (decoded)
	Elems   []*Value // Array
	Members []Member // Object, source order, duplicates kept

	// LoneSurrogate: this string contained an unpaired surrogate escape.
	LoneSurrogate bool

	// Off, End: byte span of this value in the text given to Parse
	// (End exclusive, no surrounding whitespace). Zero for constructed values.
	Off, End int
}

// ---------------------------------------------------------------- numbers

// MaxRatExp bounds |Exp| for which Num.Rat materialises the value.
const MaxRatExp = 100000

// Num is an exact decimal number: (-1)^Neg * Mant * 10^Exp.
// Mant >= 0 and is not a multiple of 10 unless it is 0; zero has Exp == 0.
// Neg records the sign character of the text (so "-0" has Neg true) but zero
// compares equal regardless of it.
type Num struct {
	Text string // spelling it was read from ("" when built by arithmetic)
	Neg  bool
	Mant *big.Int
	Exp  *big.Int
}

func isDigit(c byte) bool { return c >= '0' && c <= '9' }

// scanNumber returns the length of the longest prefix of s that matches the
// RFC 8259 number grammar, or 0 and a message when there is none.
// number = [ minus ] int [ frac ] [ exp ]
func scanNumber(s []byte) (n int, intS, intE, fracS, fracE, expS, expE int, msg string) {
	i := 0
	if i < len(s) && s[i] == '-' {
		i++
	}
	intS = i
	switch {
	case i >= len(s):
		return 0, 0, 0, 0, 0, 0, 0, "digit expected"
	case s[i] == '0':
		i++
	case s[i] >= '1' && s[i] <= '9':
		for i < len(s) && isDigit(s[i]) {
			i++
		}
	default:
		return 0, 0, 0, 0, 0, 0, 0, "digit expected"
	}
	intE = i
	if i < len(s) && s[i] == '.' {
		i++
		fracS = i
		for i < len(s) && isDigit(s[i]) {
			i++
		}
		fracE = i
		if fracE == fracS {
			return 0, 0, 0, 0, 0, 0, 0, "digit expected after decimal point"
		}
	}
	if i < len(s) && (s[i] == 'e' || s[i] == 'E') {
		i++
		expS = i
		if i < len(s) && (s[i] == '+' || s[i] == '-') {
			i++
		}
		d := i
		for i < len(s) && isDigit(s[i]) {
			i++
		}
		expE = i
		if i == d {
			return 0, 0, 0, 0, 0, 0, 0, "digit expected in exponent"
		}
	}
	return i, intS, intE, fracS, fracE, expS, expE, ""
}

// ParseNum reads a complete RFC 8259 number text exactly.
func ParseNum(text string) (*Num, error) {
	s := []byte(text)
	n, intS, intE, fracS, fracE, expS, expE, msg := scanNumber(s)
	if msg != "" {
		return nil, &SyntaxError{Off: 0, Msg: "number: " + msg}
	}
	if n != len(s) {
		return nil, &SyntaxError{Off: n, Msg: "number: unexpected character"}
	}
	return numFromParts(text, s[0] == '-', string(s[intS:intE]), string(s[fracS:fracE]), string(s[expS:expE])), nil
}

func numFromParts(text string, neg bool, ip, fp, ep string) *Num {
	exp := new(big.Int)
	if ep != "" {
		exp.SetString(strings.TrimPrefix(ep, "+"), 10)
	}
	digits := strings.TrimLeft(ip+fp, "0")
	exp.Sub(exp, big.NewInt(int64(len(fp))))
	t := strings.TrimRight(digits, "0")
	exp.Add(exp, big.NewInt(int64(len(digits)-len(t))))
	m := new(big.Int)
	if t == "" {
		exp.SetInt64(0)
	} else {
		m.SetString(t, 10)
	}
	return &Num{Text: text, Neg: neg, Mant: m, Exp: exp}
}

// NewNum builds a normalised number from sign, mantissa and decimal exponent.
func NewNum(neg bool, mant *big.Int, exp int64) *Num {
	m := new(big.Int).Abs(mant)
	e := big.NewInt(exp)
	if m.Sign() == 0 {
		return &Num{Neg: neg, Mant: m, Exp: new(big.Int)}
	}
	ten := big.NewInt(10)
	q, r := new(big.Int), new(big.Int)
	for {
		q.QuoRem(m, ten, r)
		if r.Sign() != 0 {
			break
		}
		m.Set(q)
		e.Add(e, big.NewInt(1))
	}
	return &Num{Neg: neg, Mant: m, Exp: e}
}

func (n *Num) IsZero() bool { return n.Mant.Sign() == 0 }

// IsInteger reports whether the value is a mathematical integer.
func (n *Num) IsInteger() bool { return n.Exp.Sign() >= 0 }

// Equal is exact numeric equality (-0 == 0); it never builds a power of ten.
func (n *Num) Equal(m *Num) bool {
	if n.IsZero() || m.IsZero() {
		return n.IsZero() && m.IsZero()
	}
	return n.Neg == m.Neg && n.Mant.Cmp(m.Mant) == 0 && n.Exp.Cmp(m.Exp) == 0
}

// Rat returns the value as an exact rational, or nil when |Exp| > MaxRatExp.
func (n *Num) Rat() *big.Rat {
	if !n.Exp.IsInt64() {
		return nil
	}
	e := n.Exp.Int64()
	if e > MaxRatExp || e < -MaxRatExp {
		return nil
	}
	m := new(big.Int).Set(n.Mant)
	if n.Neg {
		m.Neg(m)
	}
	if e >= 0 {
		p := new(big.Int).Exp(big.NewInt(10), big.NewInt(e), nil)
		return new(big.Rat).SetInt(m.Mul(m, p))
	}
	p := new(big.Int).Exp(big.NewInt(10), big.NewInt(-e), nil)
	return new(big.Rat).SetFrac(m, p)
}

// Canon is a spelling that is identical for equal numbers and different for
// unequal ones: "0", or [-]<mant>e<exp>.
func (n *Num) Canon() string {
	if n.IsZero() {
		return "0"
	}
	s := n.Mant.String() + "e" + n.Exp.String()
	if n.Neg {
		return "-" + s
	}
	return s
}

// Plain is a conventional valid JSON spelling of the value: no exponent while
// that stays short, otherwise <mant>e<exp>.
func (n *Num) Plain() string {
	if n.IsZero() {
		return "0"
	}
	sign := ""
	if n.Neg {
		sign = "-"
	}
	d := n.Mant.String()
	if n.Exp.IsInt64() {
		e := n.Exp.Int64()
		switch {
		case e >= 0 && e <= 24:
			return sign + d + strings.Repeat("0", int(e))
		case e < 0 && e >= -24:
			k := int(-e)
			if k < len(d) {
				return sign + d[:len(d)-k] + "." + d[len(d)-k:]
			}
			return sign + "0." + strings.Repeat("0", k-len(d)) + d
		}
	}
	return sign + d + "e" + n.Exp.String()
}

// ---------------------------------------------------------------- parser

// SyntaxError is returned by Parse for a text that is not an RFC 8259 JSON text.
type SyntaxError struct {
	Off int
	Msg string
}

func (e *SyntaxError) Error() string { return fmt.Sprintf("jsonv: offset %d: %s", e.Off, e.Msg) }

// MaxDepth is the nesting limit of Parse (RFC 8259 §9 allows one).
const MaxDepth = 10000

type parser struct {
	s     []byte
	i     int
	depth int
}

func (p *parser) fail(off int, format string, a ...any) error {
	return &SyntaxError{Off: off, Msg: fmt.Sprintf(format, a...)}
}

func (p *parser) ws() {
	for p.i < len(p.s) {
		switch p.s[p.i] {
		case ' ', '\t', '\n', '\r':
			p.i++
		default:
			return
		}
	}
}

// Parse parses exactly one JSON text.
func Parse(src []byte) (*Value, error) {
	p := &parser{s: src}
	p.ws()
	v, err := p.value()
	if err != nil {
		return nil, err
	}
	p.ws()
	if p.i != len(p.s) {
		return nil, p.fail(p.i, "unexpected data after the value")
	}
	return v, nil
}

func (p *parser) lit(word string, v *Value) (*Value, error) {
	if len(p.s)-p.i < len(word) || string(p.s[p.i:p.i+len(word)]) != word {
		return nil, p.fail(p.i, "invalid literal, %q expected", word)
	}
	v.Off = p.i
	p.i += len(word)
	v.End = p.i
	return v, nil
}

func (p *parser) value() (*Value, error) {
	if p.i >= len(p.s) {
		return nil, p.fail(p.i, "unexpected end of text, value expected")
	}
	switch c := p.s[p.i]; {
	case c == 'n':
		return p.lit("null", &Value{Kind: Null})
	case c == 't':
		return p.lit("true", &Value{Kind: Bool, B: true})
	case c == 'f':
		return p.lit("false", &Value{Kind: Bool})
	case c == '"':
		off := p.i
		s, lone, err := p.str()
		if err != nil {
			return nil, err
		}
		return &Value{Kind: String, Str: s, LoneSurrogate: lone, Off: off, End: p.i}, nil
	case c == '-' || isDigit(c):
		n, intS, intE, fracS, fracE, expS, expE, msg := scanNumber(p.s[p.i:])
		if msg != "" {
			return nil, p.fail(p.i, "number: %s", msg)
		}
		t := p.s[p.i : p.i+n]
		// "01" scans as "0" followed by garbage: report it here for a clearer message.
		if p.i+n < len(p.s) && (isDigit(p.s[p.i+n]) || p.s[p.i+n] == '.' || p.s[p.i+n] == 'e' || p.s[p.i+n] == 'E' || p.s[p.i+n] == '+' || p.s[p.i+n] == '-') {
			return nil, p.fail(p.i+n, "number: unexpected character %q", p.s[p.i+n])
		}
		num := numFromParts(string(t), t[0] == '-', string(t[intS:intE]), string(t[fracS:fracE]), string(t[expS:expE]))
		v := &Value{Kind: Number, Num: num, Off: p.i, End: p.i + n}
		p.i += n
		return v, nil
	case c == '[':
		return p.array()
	case c == '{':
		return p.object()
	default:
		return nil, p.fail(p.i, "unexpected character %q, value expected", c)
	}
}

func (p *parser) array() (*Value, error) {
	v := &Value{Kind: Array, Off: p.i, Elems: []*Value{}}
	p.depth++
	if p.depth > MaxDepth {
		return nil, p.fail(p.i, "nesting deeper than %d", MaxDepth)
	}
	p.i++ // [
	p.ws()
	if p.i < len(p.s) && p.s[p.i] == ']' {
		p.i++
		v.End = p.i
		p.depth--
		return v, nil
	}
	for {
		p.ws()
		e, err := p.value()
		if err != nil {
			return nil, err
		}
		v.Elems = append(v.Elems, e)
		p.ws()
		if p.i >= len(p.s) {
			return nil, p.fail(p.i, "unexpected end of text in array")
		}
		switch p.s[p.i] {
		case ',':
			p.i++
		case ']':
			p.i++
			v.End = p.i
			p.depth--
			return v, nil
		default:
			return nil, p.fail(p.i, "unexpected character %q, ',' or ']' expected", p.s[p.i])
		}
	}
}

func (p *parser) object() (*Value, error) {
	v := &Value{Kind: Object, Off: p.i, Members: []Member{}}
	p.depth++
	if p.depth > MaxDepth {
		return nil, p.fail(p.i, "nesting deeper than %d", MaxDepth)
	}
	p.i++ // {
	p.ws()
	if p.i < len(p.s) && p.s[p.i] == '}' {
		p.i++
		v.End = p.i
		p.depth--
		return v, nil
	}
	for {
		p.ws()
		if p.i >= len(p.s) {
			return nil, p.fail(p.i, "unexpected end of text in object")
		}
		if p.s[p.i] != '"' {
			return nil, p.fail(p.i, "unexpected character %q, member name expected", p.s[p.i])
		}
		name, lone, err := p.str()
		if err != nil {
			return nil, err
		}
		p.ws()
		if p.i >= len(p.s) || p.s[p.i] != ':' {
			return nil, p.fail(p.i, "':' expected after member name")
		}
		p.i++
		p.ws()
		e, err := p.value()
		if err != nil {
			return nil, err
		}
		v.Members = append(v.Members, Member{Name: name, NameLoneSurrogate: lone, Value: e})
		p.ws()
		if p.i >= len(p.s) {
			return nil, p.fail(p.i, "unexpected end of text in object")
		}
		switch p.s[p.i] {
		case ',':
			p.i++
		case '}':
			p.i++
			v.End = p.i
			p.depth--
			return v, nil
		default:
			return nil, p.fail(p.i, "unexpected character %q, ',' or '}' expected", p.s[p.i])
		}
	}
}

func hex4(b []byte) (rune, bool) {
	if len(b) < 4 {
		return 0, false
	}
	var r rune
	for _, c := range b[:4] {
		switch {
		case c >= '0' && c <= '9':
			r = r<<4 | rune(c-'0')
		case c >= 'a' && c <= 'f':
			r = r<<4 | rune(c-'a'+10)
		case c >= 'A' && c <= 'F':
			r = r<<4 | rune(c-'A'+10)
		default:
			return 0, false
		}
	}
	return r, true
}

// str parses a string starting at the opening quote.
func (p *parser) str() (string, bool, error) {
	start := p.i
	p.i++ // opening quote
	var b strings.Builder
	lone := false
	for {
		if p.i >= len(p.s) {
			return "", false, p.fail(start, "unterminated string")
		}
		c := p.s[p.i]
		switch {
		case c == '"':
			p.i++
			return b.String(), lone, nil
		case c < 0x20:
			return "", false, p.fail(p.i, "unescaped control character 0x%02x in string", c)
		case c == '\\':
			if p.i+1 >= len(p.s) {
				return "", false, p.fail(p.i, "unterminated escape")
			}
			e := p.s[p.i+1]
			switch e {
			case '"', '\\', '/':
				b.WriteByte(e)
				p.i += 2
			case 'b':
				b.WriteByte('\b')
				p.i += 2
			case 'f':
				b.WriteByte('\f')
				p.i += 2
			case 'n':
				b.WriteByte('\n')
				p.i += 2
			case 'r':
				b.WriteByte('\r')
				p.i += 2
			case 't':
				b.WriteByte('\t')
				p.i += 2
			case 'u':
				r, ok := hex4(p.s[p.i+2:])
				if !ok {
					return "", false, p.fail(p.i, "\\u must be followed by four hex digits")
				}
				p.i += 6
				switch {
				case r >= 0xD800 && r <= 0xDBFF:
					// high surrogate: a low surrogate escape must follow to form a pair
					if p.i+1 < len(p.s) && p.s[p.i] == '\\' && p.s[p.i+1] == 'u' {
						if r2, ok2 := hex4(p.s[p.i+2:]); ok2 && r2 >= 0xDC00 && r2 <= 0xDFFF {
							p.i += 6
							b.WriteRune(0x10000 + (r-0xD800)<<10 + (r2 - 0xDC00))
							continue
						}
					}
					lone = true
					b.WriteRune(utf8.RuneError)
				case r >= 0xDC00 && r <= 0xDFFF:
					lone = true
					b.WriteRune(utf8.RuneError)
				default:
					b.WriteRune(r)
				}
			default:
				return "", false, p.fail(p.i, "invalid escape \\%c", e)
			}
		case c < utf8.RuneSelf:
			b.WriteByte(c)
			p.i++
		default:
			r, size := utf8.DecodeRune(p.s[p.i:])
			if r == utf8.RuneError && size <= 1 {
				return "", false, p.fail(p.i, "invalid UTF-8")
			}
			b.Write(p.s[p.i : p.i+size])
			p.i += size
		}
	}
}

// ---------------------------------------------------------------- constructors

func NewNull() *Value           { return &Value{Kind: Null} }
func NewBool(b bool) *Value     { return &Value{Kind: Bool, B: b} }
func NewString(s string) *Value { return &Value{Kind: String, Str: s} }
func NewArray(e ...*Value) *Value {
	if e == nil {
		e = []*Value{}
	}
	return &Value{Kind: Array, Elems: e}
}
func NewObject(m ...Member) *Value {
	if m == nil {
		m = []Member{}
	}
	return &Value{Kind: Object, Members: m}
}
func FromNum(n *Num) *Value { return &Value{Kind: Number, Num: n} }

// NewNumber builds a number value from an RFC 8259 number text.
func NewNumber(text string) (*Value, error) {
	n, err := ParseNum(text)
	if err != nil {
		return nil, err
	}
	return FromNum(n), nil
}

// MustNumber is NewNumber for literals known to be valid.
func MustNumber(text string) *Value {
	v, err := NewNumber(text)
	if err != nil {
		panic(err)
	}
	return v
}

// Clone is a deep copy (numbers are shared: they are immutable).
func (v *Value) Clone() *Value {
	c := *v
	if v.Elems != nil {
		c.Elems = make([]*Value, len(v.Elems))
		for i, e := range v.Elems {
			c.Elems[i] = e.Clone()
		}
	}
	if v.Members != nil {
		c.Members = make([]Member, len(v.Members))
		for i, m := range v.Members {
			c.Members[i] = Member{Name: m.Name, NameLoneSurrogate: m.NameLoneSurrogate, Value: m.Value.Clone()}
		}
	}
	return &c
}

// Walk calls f on v and every descendant, parents first.
func (v *Value) Walk(f func(*Value)) {
	f(v)
	for _, e := range v.Elems {
		e.Walk(f)
	}
	for _, m := range v.Members {
		m.Value.Walk(f)
	}
}

// IsScalar reports whether v is null, a boolean, a number or a string.
func (v *Value) IsScalar() bool { return v.Kind != Array && v.Kind != Object }

// ---------------------------------------------------------------- flags

// HasDuplicateKeys reports whether some object in the tree has two members
// with the same (decoded) name.
func (v *Value) HasDuplicateKeys() bool {
	switch v.Kind {
	case Array:
		for _, e := range v.Elems {
			if e.HasDuplicateKeys() {
				return true
			}
		}
	case Object:
		if len(v.Members) > 1 {
			seen := make(map[string]struct{}, len(v.Members))
			for _, m := range v.Members {
				if _, ok := seen[m.Name]; ok {
					return true
				}
				seen[m.Name] = struct{}{}
			}
		}
		for _, m := range v.Members {
			if m.Value.HasDuplicateKeys() {
				return true
			}
		}
	}
	return false
}

// HasLoneSurrogates reports whether some string or member name in the tree
// was written with an unpaired surrogate escape.
func (v *Value) HasLoneSurrogates() bool {
	switch v.Kind {
	case String:
		return v.LoneSurrogate
	case Array:
		for _, e := range v.Elems {
			if e.HasLoneSurrogates() {
				return true
			}
		}
	case Object:
		for _, m := range v.Members {
			if m.NameLoneSurrogate || m.Value.HasLoneSurrogates() {
				return true
			}
		}
	}
	return false
}

// ---------------------------------------------------------------- equality

// Equal is semantic equality of JSON values (see the package comment).
// Objects with duplicate names are compared as multisets of members.
func Equal(a, b *Value) bool {
	if a == nil || b == nil {
		return a == b
	}
	if a.Kind != b.Kind {
		return false
	}
	switch a.Kind {
	case Null:
		return true
	case Bool:
		return a.B == b.B
	case Number:
		return a.Num.Equal(b.Num)
	case String:
		return a.Str == b.Str
	case Array:
		if len(a.Elems) != len(b.Elems) {
			return false
		}
		for i := range a.Elems {
			if !Equal(a.Elems[i], b.Elems[i]) {
				return false
			}
		}
		return true
	case Object:
		if len(a.Members) != len(b.Members) {
			return false
		}
		used := make([]bool, len(b.Members))
	next:
		for _, ma := range a.Members {
			for j, mb := range b.Members {
				if !used[j] && ma.Name == mb.Name && Equal(ma.Value, mb.Value) {
					used[j] = true
					continue next
				}
			}
			return false
		}
		return true
	}
	return false
}

// Get returns the value of the first member called name, or nil.
func (v *Value) Get(name string) *Value {
	for _, m := range v.Members {
		if m.Name == name {
			return m.Value
		}
	}
	return nil
}

// ---------------------------------------------------------------- writers

const hexLower = "0123456789abcdef"
const hexUpper = "0123456789ABCDEF"

func appendU4(b []byte, r rune, upper bool) []byte {
	h := hexLower
	if upper {
		h = hexUpper
	}
	return append(b, '\\', 'u', h[(r>>12)&15], h[(r>>8)&15], h[(r>>4)&15], h[r&15])
}

func shortEscape(r rune) byte {
	switch r {
	case '"':
		return '"'
	case '\\':
		return '\\'
	case '/':
		return '/'
	case '\b':
		return 'b'
	case '\f':
		return 'f'
	case '\n':
		return 'n'
	case '\r':
		return 'r'
	case '\t':
		return 't'
	}
	return 0
}

// appendString writes s as a JSON string. With rng == nil the spelling is the
// plain one (raw characters, short escapes for quote, backslash and the named
// controls, \u00xx for the other controls); otherwise every character gets a
// random one of its legal spellings.
func appendString(b []byte, s string, rng *ev.Rand) []byte {
	b = append(b, '"')
	for _, r := range s {
		mustEscape := r < 0x20 || r == '"' || r == '\\'
		se := shortEscape(r)
		mode := 0 // 0 raw, 1 short, 2 \u
		if rng == nil {
			switch {
			case !mustEscape:
				mode = 0
			case se != 0:
				mode = 1
			default:
				mode = 2
			}
		} else {
			// weights: raw 3 (when legal), short escape 2 (when one exists), \u 1
			var opts [6]int
			n := 0
			if !mustEscape {
				n += copy(opts[n:], []int{0, 0, 0})
			}
			if se != 0 {
				n += copy(opts[n:], []int{1, 1})
			}
			opts[n] = 2
			n++
			mode = opts[rng.Intn(n)]
		}
		switch mode {
		case 0:
			b = utf8.AppendRune(b, r)
		case 1:
			b = append(b, '\\', se)
		default:
			up := rng != nil && rng.Bool()
			if r >= 0x10000 {
				r -= 0x10000
				b = appendU4(b, 0xD800+(r>>10), up)
				if rng != nil {
					up = rng.Bool()
				}
				b = appendU4(b, 0xDC00+(r&0x3FF), up)
			} else {
				b = appendU4(b, r, up)
			}
		}
	}
	return append(b, '"')
}

// Compact writes v with no whitespace, members in tree order, numbers in the
// spelling they were read from (Num.Plain for constructed numbers) and strings
// in the plain spelling. Deterministic.
func Compact(v *Value) []byte { return appendCompact(nil, v) }

func (v *Value) String() string { return string(Compact(v)) }

func appendCompact(b []byte, v *Value) []byte {
	switch v.Kind {
	case Null:
		return append(b, "null"...)
	case Bool:
		if v.B {
			return append(b, "true"...)
		}
		return append(b, "false"...)
	case Number:
		if v.Num.Text != "" {
			return append(b, v.Num.Text...)
		}
		return append(b, v.Num.Plain()...)
	case String:
		return appendString(b, v.Str, nil)
	case Array:
		b = append(b, '[')
		for i, e := range v.Elems {
			if i > 0 {
				b = append(b, ',')
			}
			b = appendCompact(b, e)
		}
		return append(b, ']')
	case Object:
		b = append(b, '{')
		for i, m := range v.Members {
			if i > 0 {
				b = append(b, ',')
			}
			b = appendString(b, m.Name, nil)
			b = append(b, ':')
			b = appendCompact(b, m.Value)
		}
		return append(b, '}')
	}
	return b
}

// Canonical writes a spelling that is byte-identical for Equal values and
// different otherwise (for trees without duplicate names / lone surrogates):
// members sorted by name, numbers as Num.Canon (<mant>e<exp>, still a valid
// JSON number), plain strings, no whitespace. The output parses back to an
// Equal value.
func Canonical(v *Value) []byte { return appendCanonical(nil, v) }

func appendCanonical(b []byte, v *Value) []byte {
	switch v.Kind {
	case Number:
		return append(b, v.Num.Canon()...)
	case Array:
		b = append(b, '[')
		for i, e := range v.Elems {
			if i > 0 {
				b = append(b, ',')
			}
			b = appendCanonical(b, e)
		}
		return append(b, ']')
	case Object:
		idx := make([]int, len(v.Members))
		for i := range idx {
			idx[i] = i
		}
		sort.SliceStable(idx, func(i, j int) bool { return v.Members[idx[i]].Name < v.Members[idx[j]].Name })
		b = append(b, '{')
		for k, i := range idx {
			if k > 0 {
				b = append(b, ',')
			}
			b = appendString(b, v.Members[i].Name, nil)
			b = append(b, ':')
			b = appendCanonical(b, v.Members[i].Value)
		}
		return append(b, '}')
	}
	return appendCompact(b, v)
}

var wsChoices = []string{"", "", "", " ", " ", "\n", "\t", "\r\n", "  ", " \n\t"}

func appendWS(b []byte, rng *ev.Rand) []byte { return append(b, ev.Pick(rng, wsChoices)...) }

// Respell writes a random text that denotes the same value as v: random
// whitespace between tokens, random member order, a random equivalent spelling
// of every number (integer / fraction / exponent forms, trailing zeros, E vs e,
// exponent sign and leading zeros, -0 for zero) and of every string character
// (raw, short escape, \uXXXX in either hex case, surrogate pair escapes for
// astral characters). Not meaning-preserving for values flagged by
// HasLoneSurrogates (the replacement character is written).
func Respell(v *Value, rng *ev.Rand) []byte {
	b := appendWS(nil, rng)
	b = appendRespell(b, v, rng)
	return appendWS(b, rng)
}

func appendRespell(b []byte, v *Value, rng *ev.Rand) []byte {
	switch v.Kind {
	case Number:
		return append(b, RespellNum(v.Num, rng)...)
	case String:
		return appendString(b, v.Str, rng)
	case Array:
		b = append(b, '[')
		b = appendWS(b, rng)
		for i, e := range v.Elems {
			if i > 0 {
				b = append(b, ',')
				b = appendWS(b, rng)
			}
			b = appendRespell(b, e, rng)
			b = appendWS(b, rng)
		}
		return append(b, ']')
	case Object:
		idx := make([]int, len(v.Members))
		for i := range idx {
			idx[i] = i
		}
		for i := len(idx) - 1; i > 0; i-- {
			j := rng.Intn(i + 1)
			idx[i], idx[j] = idx[j], idx[i]
		}
		b = append(b, '{')
		b = appendWS(b, rng)
		for k, i := range idx {
			if k > 0 {
				b = append(b, ',')
				b = appendWS(b, rng)
			}
			b = appendString(b, v.Members[i].Name, rng)
			b = appendWS(b, rng)
			b = append(b, ':')
			b = appendWS(b, rng)
			b = appendRespell(b, v.Members[i].Value, rng)
			b = appendWS(b, rng)
		}
		return append(b, '}')
	}
	return appendCompact(b, v)
}

func expPart(rng *ev.Rand, e *big.Int) string {
	var sb strings.Builder
	if rng.Bool() {
		sb.WriteByte('e')
	} else {
		sb.WriteByte('E')
	}
	a := new(big.Int).Abs(e)
	switch {
	case e.Sign() < 0:
		sb.WriteByte('-')
	case e.Sign() == 0 && rng.Intn(4) == 0:
		sb.WriteByte('-') // e-0 is a legal spelling of e0
	case rng.Intn(3) == 0:
		sb.WriteByte('+')
	}
	if rng.Intn(6) == 0 {
		sb.WriteString(strings.Repeat("0", 1+rng.Intn(2)))
	}
	sb.WriteString(a.String())
	return sb.String()
}

// RespellNum returns a random RFC 8259 spelling of exactly the same number.
func RespellNum(n *Num, rng *ev.Rand) string {
	sign := ""
	if n.IsZero() {
		if rng.Intn(3) == 0 {
			sign = "-"
		}
		s := sign + "0"
		if rng.Intn(3) == 0 {
			s += "." + strings.Repeat("0", 1+rng.Intn(3))
		}
		if rng.Intn(3) == 0 {
			s += expPart(rng, big.NewInt(int64(rng.Intn(4001)-2000)))
		}
		return s
	}
	if n.Neg {
		sign = "-"
	}
	d := n.Mant.String()
	e := new(big.Int).Set(n.Exp)
	// value = d * 10^e. Optionally carry some trailing zeros in the digit string.
	if z := rng.Intn(4); z > 0 && rng.Bool() {
		d += strings.Repeat("0", z)
		e.Sub(e, big.NewInt(int64(z)))
	}
	// Choose the exponent X that will be written; the digit string is then
	// shifted by s = e - X places: value = (d * 10^s) * 10^X.
	var s int64
	noExp := false
	if e.IsInt64() && e.Int64() >= -25 && e.Int64() <= 25 && rng.Intn(5) < 3 {
		s = e.Int64()
		noExp = true
	} else {
		s = int64(rng.Intn(len(d)+9)) - int64(len(d)) - 4 // point anywhere from left of the digits to right of them
	}
	x := new(big.Int).Sub(e, big.NewInt(s))
	var m string
	switch {
	case s >= 0:
		m = d + strings.Repeat("0", int(s))
		if rng.Intn(4) == 0 {
			m += "." + strings.Repeat("0", 1+rng.Intn(2))
		}
	case int(-s) < len(d):
		m = d[:len(d)+int(s)] + "." + d[len(d)+int(s):]
	default:
		m = "0." + strings.Repeat("0", int(-s)-len(d)) + d
	}
	if noExp && x.Sign() == 0 && rng.Intn(5) != 0 {
		return sign + m
	}
	return sign + m + expPart(rng, x)
}

// Float64 rounds the number to the nearest float64 with strconv.ParseFloat
// (±Inf on overflow, 0 on underflow). It is NOT part of the exact model; it
// is offered so that monitors can classify findings such as "equal only after
// rounding to binary64".
func (n *Num) Float64() float64 {
	t := n.Text
	if t == "" {
		t = n.Plain()
	}
	f, _ := strconv.ParseFloat(t, 64)
	return f
}
