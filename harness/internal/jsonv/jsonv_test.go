package jsonv

import (
	"bytes"
	"encoding/json"
	"math/big"
	"testing"

	"verifharness/internal/ev"
)

func TestValidity(t *testing.T) {
	valid := []string{
		`null`, `true`, `false`, `0`, `-0`, `1`, `-1`, `1.0`, `1e0`, `1E+0`, `1e-0`, `10e-1`, `0.0`, `0e5`, `1e00`, `1E+007`,
		`123456789012345678901234567890`, `1e2000`, `""`, `"a"`, `"\u0041"`, `"\/"`, `"\ud83d\ude00"`, `"😀"`,
		`"\b\f\n\r\t\"\\"`, "\"\x7f\"", `[]`, `{}`, `[1,2]`, ` [ 1 , 2 ] `, "\t\r\n {\"a\" : 1}\n", `{"a":1,"a":2}`, `{"":0}`,
		`"\ud800"`, `"\udc00"`, `"\ud800\u0041"`, `[[[[]]]]`, `"\u2028"`, "\"\u2028\"", `"\uFFFF"`,
	}
	for _, s := range valid {
		if _, err := Parse([]byte(s)); err != nil {
			t.Errorf("Parse(%q) = %v, want ok", s, err)
		}
	}
	invalid := []string{
		``, ` `, `nul`, `nulll`, `Null`, `True`, `tru`, `01`, `-01`, `+1`, `.5`, `1.`, `1.e1`, `1e`, `1e+`, `-`, `--1`, `0x10`, `NaN`, `Infinity`, `-Infinity`,
		`1 x`, `{} []`, `1,`, `[1,]`, `[,1]`, `[1 2]`, `{"a":1,}`, `{"a" 1}`, `{a:1}`, `{"a":}`, `{1:1}`, `[1:2]`, `[1}`, `{"a":1]`, `[`, `{`, `[1`, `{"a"`, `{"a":`,
		`'a'`, `"a`, "\"a\tb\"", "\"a\nb\"", "\"\x00\"", "\"\x1f\"", `"\x41"`, `"\u12"`, `"\u12G4"`, `"\a"`, `"\'"`, `"\`, `"\u`, `"\"`,
		"\"\xff\"", "\"\xc3\"", "\"\xc0\xaf\"", "\"\xed\xa0\x80\"", "\xef\xbb\xbf1", "\v1", "\f1", "\u00a01", "1\u2028", `/**/1`, `1//x`, `1_000`, `1,5`, "1\x00",
		`"a" "b"`, `00`, `-0.`, `0.e1`, `1e1.5`, `1.5.5`, `1-2`, `2e`, `[1,,2]`, `{,}`, `{"a":1 "b":2}`, `]`, `}`, `:`, `,`,
	}
	for _, s := range invalid {
		if v, err := Parse([]byte(s)); err == nil {
			t.Errorf("Parse(%q) accepted as %s", s, v)
		}
	}
}

func TestFlags(t *testing.T) {
	for s, want := range map[string][2]bool{
		`{"a":1,"a":2}`:         {true, false},
		`{"a":1,"\u0061":1}`:    {true, false},
		`[{"a":{"b":1,"b":1}}]`: {true, false},
		`{"a":1,"A":2}`:         {false, false},
		`"\ud800"`:              {false, true},
		`"\udc00\ud800"`:        {false, true},
		`"\ud800\ud800\udc00"`:  {false, true},
		`{"\udfff":1}`:          {false, true},
		`["\ud83d\ude00"]`:      {false, false},
		`"\ud83d\uDE00"`:        {false, false},
	} {
		v, err := Parse([]byte(s))
		if err != nil {
			t.Fatalf("%q: %v", s, err)
		}
		if got := [2]bool{v.HasDuplicateKeys(), v.HasLoneSurrogates()}; got != want {
			t.Errorf("%q flags = %v want %v", s, got, want)
		}
	}
}

func eq(t *testing.T, a, b string) bool {
	t.Helper()
	va, err := Parse([]byte(a))
	if err != nil {
		t.Fatalf("%q: %v", a, err)
	}
	vb, err := Parse([]byte(b))
	if err != nil {
		t.Fatalf("%q: %v", b, err)
	}
	r := Equal(va, vb)
	if r != Equal(vb, va) {
		t.Errorf("Equal not symmetric on %q %q", a, b)
	}
	if r != bytes.Equal(Canonical(va), Canonical(vb)) {
		t.Errorf("Canonical disagrees with Equal on %q %q: %s %s", a, b, Canonical(va), Canonical(vb))
	}
	return r
}

func TestEqual(t *testing.T) {
	same := [][2]string{
		{`1`, `1.0`}, {`1`, `1e0`}, {`1`, `10e-1`}, {`1`, `100e-2`}, {`1`, `1E+0`}, {`1`, `0.1e1`}, {`1`, `0.01E+02`}, {`0`, `-0`}, {`0`, `0.0`}, {`0`, `0e2000`}, {`-0.0e-7`, `0`},
		{`1e2000`, `10e1999`}, {`1e-2000`, `0.1e-1999`}, {`1e999999999999999999999`, `10e999999999999999999998`},
		{`9007199254740992`, `9007199254740992.0`}, {`9007199254740992`, `9.007199254740992e15`}, {`120`, `1.2e2`}, {`-1.50`, `-15e-1`},
		{`"A"`, `"\u0041"`}, {`"/"`, `"\/"`}, {`"/"`, `"\u002f"`}, {`"/"`, `"\u002F"`}, {`"é"`, `"\u00e9"`}, {`"é"`, `"\u00E9"`}, {`"😀"`, `"\ud83d\ude00"`}, {`"😀"`, `"\uD83D\uDE00"`},
		{`"\n"`, `"\u000a"`}, {`"\""`, `"\u0022"`}, {`[1,2]`, ` [ 1.0 ,2e0] `}, {`{"a":1,"b":[2]}`, "{\"b\":[2.0],\n\"\\u0061\":1}"}, {`{}`, ` { } `}, {`[]`, `[ ]`},
	}
	for _, p := range same {
		if !eq(t, p[0], p[1]) {
			t.Errorf("%q != %q, want equal", p[0], p[1])
		}
	}
	diff := [][2]string{
		{`9007199254740993`, `9007199254740992.0`}, {`0.1`, `0.1000000000000000000001`}, {`1e400`, `1e401`}, {`1e-400`, `1e-401`}, {`1e-400`, `0`}, {`1`, `-1`}, {`1`, `"1"`}, {`true`, `"true"`},
		{`null`, `"null"`}, {`null`, `0`}, {`null`, `false`}, {`[]`, `{}`}, {`[]`, `""`}, {`""`, `0`}, {`0`, `false`}, {`[1,2]`, `[2,1]`}, {`[1]`, `[1,1]`}, {`{"a":null}`, `{}`},
		{`{"a":1}`, `{"A":1}`}, {`{"a":{"b":1}}`, `{"a":{"c":1}}`}, {`"é"`, `"e\u0301"`}, {`"a"`, `"a "`}, {`"a"`, `"A"`}, {`"\u0000"`, `""`}, {`1e2000`, `1e-2000`},
		{`1e999999999999999999999`, `1e999999999999999999998`}, {`{"a":1,"b":2}`, `{"a":1}`}, {`{"a":1}`, `{"a":1,"b":2}`}, {`[[]]`, `[]`}, {`"\ud83d\ude00"`, `"\ud83d\ude01"`},
	}
	for _, p := range diff {
		if eq(t, p[0], p[1]) {
			t.Errorf("%q == %q, want different", p[0], p[1])
		}
	}
}

// second opinion on numbers: math/big's own decimal reader
func TestNumAgainstBigRat(t *testing.T) {
	rng := ev.NewRand(7, "jsonv-num")
	for i := 0; i < 20000; i++ {
		m := new(big.Int).SetUint64(rng.Uint64() >> uint(rng.Intn(64)))
		n := NewNum(rng.Bool(), m, int64(rng.Intn(81)-40))
		for k := 0; k < 4; k++ {
			s := RespellNum(n, rng)
			p, err := ParseNum(s)
			if err != nil {
				t.Fatalf("RespellNum gave %q: %v", s, err)
			}
			if !p.Equal(n) {
				t.Fatalf("respelling %q of %s is not equal", s, n.Canon())
			}
			want, ok := new(big.Rat).SetString(s)
			if !ok {
				t.Fatalf("big.Rat rejects %q", s)
			}
			if p.Rat().Cmp(want) != 0 {
				t.Fatalf("%q: Rat()=%s big says %s", s, p.Rat(), want)
			}
			var f float64
			if json.Unmarshal([]byte(s), &f) != nil {
				t.Fatalf("encoding/json rejects %q", s)
			}
		}
	}
}

func genT(rng *ev.Rand, depth int) *Value {
	k := rng.Intn(8)
	if depth == 0 && k >= 6 {
		k = rng.Intn(6)
	}
	switch k {
	case 0:
		return NewNull()
	case 1:
		return NewBool(rng.Bool())
	case 2, 3:
		return FromNum(NewNum(rng.Bool(), new(big.Int).SetUint64(rng.Uint64()>>uint(rng.Intn(64))), int64(rng.Intn(61)-30)))
	case 4, 5:
		rs := []rune{'a', 'A', '"', '\\', '/', '\n', 0, 0x1f, 0x7f, 0xe9, 0x2028, 0xfffd, 0xffff, 0x10000, 0x1f600, 0x10ffff, ' '}
		var s []rune
		for i := rng.Intn(5); i > 0; i-- {
			s = append(s, ev.Pick(rng, rs))
		}
		return NewString(string(s))
	case 6:
		var e []*Value
		for i := rng.Intn(4); i > 0; i-- {
			e = append(e, genT(rng, depth-1))
		}
		return NewArray(e...)
	default:
		var m []Member
		names := []string{"a", "b", "", "é", "\n", "😀", "a/b"}
		for i, n := 0, rng.Intn(4); i < n; i++ {
			m = append(m, Member{Name: names[(rng.Intn(3)+i*2)%len(names)] + string(rune('0'+i)), Value: genT(rng, depth-1)})
		}
		return NewObject(m...)
	}
}

// every respelling parses, is Equal to the source, and agrees with encoding/json's reading
func TestRespellRoundTrip(t *testing.T) {
	rng := ev.NewRand(3, "jsonv-respell")
	for i := 0; i < 20000; i++ {
		v := genT(rng, 3)
		for k := 0; k < 3; k++ {
			var s []byte
			if k == 0 {
				s = Compact(v)
			} else {
				s = Respell(v, rng)
			}
			p, err := Parse(s)
			if err != nil {
				t.Fatalf("respelling %q of %s does not parse: %v", s, v, err)
			}
			if !Equal(p, v) || !Equal(v, p) {
				t.Fatalf("respelling %q is not Equal to %s", s, v)
			}
			if p.HasDuplicateKeys() || p.HasLoneSurrogates() {
				t.Fatalf("flags on %q", s)
			}
			if !bytes.Equal(Canonical(p), Canonical(v)) {
				t.Fatalf("canonical differs: %s / %s", Canonical(p), Canonical(v))
			}
			if !json.Valid(s) {
				t.Fatalf("encoding/json says invalid: %q", s)
			}
			dec := json.NewDecoder(bytes.NewReader(s))
			dec.UseNumber()
			var x any
			if err := dec.Decode(&x); err != nil {
				t.Fatal(err)
			}
			if !sameAsStd(p, x) {
				t.Fatalf("encoding/json reads %q differently", s)
			}
			if string(s[p.Off:p.End]) != string(bytes.TrimSpace(s)) {
				t.Fatalf("span %d:%d of %q", p.Off, p.End, s)
			}
		}
	}
}

func sameAsStd(v *Value, x any) bool {
	switch y := x.(type) {
	case nil:
		return v.Kind == Null
	case bool:
		return v.Kind == Bool && v.B == y
	case json.Number:
		r, ok := new(big.Rat).SetString(string(y))
		return ok && v.Kind == Number && v.Num.Rat().Cmp(r) == 0
	case string:
		return v.Kind == String && v.Str == y
	case []any:
		if v.Kind != Array || len(v.Elems) != len(y) {
			return false
		}
		for i := range y {
			if !sameAsStd(v.Elems[i], y[i]) {
				return false
			}
		}
		return true
	case map[string]any:
		if v.Kind != Object || len(v.Members) != len(y) {
			return false
		}
		for _, m := range v.Members {
			e, ok := y[m.Name]
			if !ok || !sameAsStd(m.Value, e) {
				return false
			}
		}
		return true
	}
	return false
}
