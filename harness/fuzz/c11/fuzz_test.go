// Package c11fuzz is the coverage-guided workload of C11's thorough tier: go's native fuzzing engine mutates whole
// documents (seeded with the small corpus documents), the fuzz target runs the real parser and IR builder and the
// monitor is "no panic". A process-fatal error (stack overflow) ends the worker and is reported by the engine as a
// crasher, too. The deciding step stays a runtime monitor; the engine only supplies inputs.
package c11fuzz

import (
	"os"
	"path/filepath"
	"strings"
	"testing"

	"github.com/ogen-go/ogen"
	"github.com/ogen-go/ogen/gen"
)

func repoDir() string {
	if d := os.Getenv("VERIF_REPO"); d != "" {
		return d
	}
	return "/repo"
}

func FuzzParseGenerate(f *testing.F) {
	n := 0
	for _, dir := range []string{"_testdata/positive", "_testdata/negative", "_testdata/examples"} {
		_ = filepath.Walk(filepath.Join(repoDir(), dir), func(p string, info os.FileInfo, err error) error {
			if err != nil || info.IsDir() || info.Size() > 6000 || info.Size() == 0 {
				return nil
			}
			if !(strings.HasSuffix(p, ".json") || strings.HasSuffix(p, ".yml") || strings.HasSuffix(p, ".yaml")) {
				return nil
			}
			b, err := os.ReadFile(p)
			if err == nil {
				f.Add(b)
				n++
			}
			return nil
		})
	}
	if n == 0 {
		f.Fatal("no seed documents")
	}
	f.Fuzz(func(t *testing.T, data []byte) {
		if len(data) > 16384 {
			return
		}
		s, err := ogen.Parse(data)
		if err != nil {
			return
		}
		_, _ = gen.NewGenerator(s, gen.Options{
			Parser:    gen.ParseOptions{InferSchemaType: true},
			Generator: gen.GenerateOptions{IgnoreNotImplemented: []string{"all"}},
		})
	})
}
