package servlab

import (
	"encoding/json"
	"fmt"
	"os"

	"verifharness/internal/ev"
)

// Job is what the parent hands to a driver binary.
type Job struct {
	Driver string          `json:"driver"`
	Prop   string          `json:"prop"`
	Level  string          `json:"level"`
	Data   json.RawMessage `json:"data"`
}

var drivers = map[string]func(r *ev.Run, data json.RawMessage) error{}

// Main is the entry point of every driver binary: driver <job.json> <out.json>.
func Main() {
	if len(os.Args) < 3 {
		fmt.Println("usage: driver job.json out.json")
		os.Exit(2)
	}
	b, err := os.ReadFile(os.Args[1])
	if err != nil {
		fmt.Println("ERROR", err)
		os.Exit(2)
	}
	var j Job
	if err := json.Unmarshal(b, &j); err != nil {
		fmt.Println("ERROR", err)
		os.Exit(2)
	}
	f := drivers[j.Driver]
	if f == nil {
		fmt.Println("ERROR unknown driver", j.Driver)
		os.Exit(2)
	}
	if j.Level == "" {
		j.Level = "exploration"
	}
	r := ev.New(j.Prop, j.Level)
	if err := f(r, j.Data); err != nil {
		fmt.Println("ERROR driver:", err)
		os.Exit(3)
	}
	if err := r.ExportFile(os.Args[2]); err != nil {
		fmt.Println("ERROR", err)
		os.Exit(2)
	}
}
