package servlab

import (
	"context"
	"encoding/json"
	"fmt"
	"github.com/ogen-go/ogen/middleware"
	"hash/fnv"
	"io"
	"net/http"
	"net/http/httptest"
	"net/textproto"
	"net/url"
	"reflect"
	"runtime"
	"sort"
	"strings"
	"sync"
	"sync/atomic"
	"time"

	"github.com/anishathalye/porcupine"

	"verifharness/internal/ev"
)

type C19Pkg struct {
	Key        string `json:"key"`
	Origin     string `json:"origin"`
	Calls      int    `json:"calls"`      // calls in the list
	Goroutines int    `json:"goroutines"` // concurrent callers
	Rounds     int    `json:"rounds"`     // concurrent repetitions of the list
	KV         bool   `json:"kv"`         // the key/value spec checked with porcupine
}

type C19Data struct {
	Pkgs []C19Pkg `json:"pkgs"`
}

func init() { drivers["c19"] = runC19 }

// ---------------------------------------------------------------- echo handler

// c19Disp answers every call with a response that is a deterministic function of
// the request it received, so that a sequential and a concurrent run must agree.
type c19Disp struct {
	pkg      *Package
	resT     map[string]reflect.Type
	srcT     map[string]reflect.Type
	inflight atomic.Int64
	maxIn    atomic.Int64
	delays   bool
	calls    atomic.Int64
}

func hashOf(s string) uint64 {
	h := fnv.New64a()
	h.Write([]byte(s))
	return h.Sum64()
}

func (d *c19Disp) Call(iface, method string, args []any) []any {
	switch iface {
	case "Handler":
		if method == "NewError" {
			return nil
		}
		n := d.inflight.Add(1)
		for {
			m := d.maxIn.Load()
			if n <= m || d.maxIn.CompareAndSwap(m, n) {
				break
			}
		}
		defer d.inflight.Add(-1)
		d.calls.Add(1)
		var key strings.Builder
		key.WriteString(method)
		for _, a := range args[1:] {
			if a != nil {
				key.WriteString("|")
				key.WriteString(Descr(Snap(a)))
			}
		}
		h := hashOf(key.String())
		if d.delays {
			// schedule perturbation between request decoding and response encoding
			for i := 0; i < int(h%5); i++ {
				runtime.Gosched()
			}
			if h%7 == 0 {
				time.Sleep(time.Duration(h%300) * time.Microsecond)
			}
		}
		rt := d.resT[method]
		if rt == nil {
			return []any{nil}
		}
		b := &Builder{Pkg: d.pkg, Rng: ev.NewRand(int64(h), "c19res"), MaxDepth: 3, UniqueID: fmt.Sprintf("r%x-", h&0xffffff)}
		v, ok := b.Validated(rt, 8)
		if !ok {
			b.Tame = true
			v = b.Value(rt, 0)
		}
		holder := reflect.New(rt).Elem()
		holder.Set(v)
		setStatusCodes(holder, []string{"200"}, ev.NewRand(int64(h), "code"), func(reflect.Type) bool { return true })
		return []any{holder.Interface(), nil}
	case "SecurityHandler":
		return []any{args[0], nil}
	case "SecuritySource":
		t := d.srcT[method]
		if t == nil {
			return []any{nil}
		}
		b := &Builder{Pkg: d.pkg, Rng: ev.NewRand(7, "cred", method), Tame: true}
		return []any{b.Value(t, 0).Interface(), nil}
	}
	return nil
}

// c19Middlewares returns n pass-through middlewares; each may yield before handing on (a middleware
// is user code and may block), which is where a continuation shared between requests would be swapped.
func c19Middlewares(n int, seen *atomic.Int64, delays *bool) []middleware.Middleware {
	var ms []middleware.Middleware
	for k := 0; k < n; k++ {
		k := k
		ms = append(ms, func(req middleware.Request, next middleware.Next) (middleware.Response, error) {
			c := seen.Add(1)
			if *delays {
				h := ev.Mix64(uint64(c)*31 + uint64(k))
				for i := 0; i < int(h%4); i++ {
					runtime.Gosched()
				}
				if h%11 == 0 {
					time.Sleep(time.Duration(h%200) * time.Microsecond)
				}
			}
			return next(req)
		})
	}
	return ms
}

type c19Call struct {
	op       string
	in       []reflect.Value // without ctx
	override bool            // call with the per-call server URL override
}

// c19PartHeader is shared by every multipart file of every call.
var c19PartHeader = textproto.MIMEHeader{"Content-Type": {"application/x-verif"}, "X-Verif-Part": {"shared"}}

// rewindReaders seeks every *bytes.Reader inside a value back to its start.
func rewindReaders(v reflect.Value, depth int) {
	if !v.IsValid() || depth > 8 {
		return
	}
	switch v.Kind() {
	case reflect.Interface, reflect.Pointer:
		if v.IsNil() {
			return
		}
		if s, ok := v.Interface().(io.Seeker); ok {
			s.Seek(0, io.SeekStart)
			return
		}
		rewindReaders(v.Elem(), depth+1)
	case reflect.Struct:
		for i := 0; i < v.NumField(); i++ {
			if v.Type().Field(i).IsExported() {
				rewindReaders(v.Field(i), depth+1)
			}
		}
	case reflect.Slice, reflect.Array:
		if v.Type().Elem().Kind() == reflect.Uint8 {
			return
		}
		for i := 0; i < v.Len(); i++ {
			rewindReaders(v.Index(i), depth+1)
		}
	case reflect.Map:
		it := v.MapRange()
		for it.Next() {
			rewindReaders(it.Value(), depth+1)
		}
	}
}

type c19Outcome struct {
	err  string
	snap any
}

func runC19(r *ev.Run, data json.RawMessage) error {
	var d C19Data
	if err := json.Unmarshal(data, &d); err != nil {
		return err
	}
	for i := range d.Pkgs {
		var err error
		func() {
			defer func() {
				if p := recover(); p != nil {
					buf := make([]byte, 4096)
					n := runtime.Stack(buf, false)
					err = fmt.Errorf("%s: harness panic: %v\n%s", d.Pkgs[i].Origin, p, buf[:n])
				}
			}()
			if d.Pkgs[i].KV {
				err = c19KV(r, &d.Pkgs[i])
			} else {
				err = c19Pkg(r, &d.Pkgs[i])
			}
		}()
		if err != nil {
			return err
		}
	}
	return nil
}

func errClass(err error) string {
	if err == nil {
		return ""
	}
	s := err.Error()
	// addresses and ports of the loopback server differ between runs
	if i := strings.Index(s, "127.0.0.1:"); i >= 0 {
		j := i + len("127.0.0.1:")
		for j < len(s) && s[j] >= '0' && s[j] <= '9' {
			j++
		}
		s = s[:i] + "127.0.0.1:PORT" + s[j:]
	}
	return s
}

func c19Pkg(r *ev.Run, pc *C19Pkg) error {
	pkg := Lookup(pc.Key)
	if pkg == nil {
		return fmt.Errorf("package %s not linked", pc.Key)
	}
	ht := pkg.Type("Handler")
	if ht == nil {
		return nil
	}
	disp := &c19Disp{pkg: pkg, resT: map[string]reflect.Type{}, srcT: map[string]reflect.Type{}}
	if st := pkg.Type("SecuritySource"); st != nil && st.Kind() == reflect.Interface {
		for i := 0; i < st.NumMethod(); i++ {
			if m := st.Method(i); m.Type.NumOut() == 2 {
				disp.srcT[m.Name] = m.Type.Out(0)
			}
		}
	}
	for i := 0; i < ht.NumMethod(); i++ {
		if m := ht.Method(i); m.Type.NumOut() == 2 {
			disp.resT[m.Name] = m.Type.Out(0)
		}
	}
	srv, err := pkg.NewServer(disp, ServerConfig{})
	if err != nil {
		return err
	}
	// a second server of the same handler behind a chain of pass-through middlewares (user code that may yield)
	mwSeen := &atomic.Int64{}
	srvMW, err := pkg.NewServer(disp, ServerConfig{Middleware: c19Middlewares(3, mwSeen, &disp.delays)})
	if err != nil {
		return err
	}
	ts := httptest.NewServer(srvMW)
	defer ts.Close()
	// three clients: in-process wire transport (plain server and middleware server) and a real loopback connection pool
	clWire, err := pkg.NewClient(disp, ClientConfig{URL: "http://verif.local", HTTP: &WireTransport{H: srv}})
	if err != nil {
		return err
	}
	hc := &http.Client{Transport: &http.Transport{MaxIdleConnsPerHost: 64}}
	clNet, err := pkg.NewClient(disp, ClientConfig{URL: ts.URL, HTTP: hc})
	if err != nil {
		return err
	}
	clWireMW, err := pkg.NewClient(disp, ClientConfig{URL: "http://verif.local", HTTP: &WireTransport{H: srvMW}})
	if err != nil {
		return err
	}
	clients := []reflect.Value{reflect.ValueOf(clWire), reflect.ValueOf(clNet), reflect.ValueOf(clWireMW)}
	transports := []string{"in-process wire", "loopback http, 3 middlewares", "in-process wire, 3 middlewares"}

	// the call list: valid, invalid (hostile) and validation-failing requests over all operations
	rng := r.Rand("c19", pc.Origin)
	var ops []OpInfo
	for _, op := range pkg.Ops {
		if op.Iface == "Handler" {
			if _, ok := ht.MethodByName(op.Name); ok {
				ops = append(ops, op)
			}
		}
	}
	c19Abandoned(r, pkg, pc, disp, ht, ops)
	if len(ops) == 0 {
		return nil
	}
	var calls []c19Call
	for k := 0; len(calls) < pc.Calls && k < pc.Calls*4; k++ {
		op := ops[k%len(ops)]
		hm, _ := ht.MethodByName(op.Name)
		b := &Builder{Pkg: pkg, Rng: rng, Hostile: k%3 == 2, MaxDepth: 3, UniqueID: fmt.Sprintf("c%d-", k), PartHeader: c19PartHeader}
		var in []reflect.Value
		okb := true
		for i := 1; i < hm.Type.NumIn(); i++ {
			t := hm.Type.In(i)
			var v reflect.Value
			if k%5 == 4 {
				v = b.Value(t, 0) // not filtered by Validate: exercises failing validation concurrently
			} else {
				var ok bool
				v, ok = b.Validated(t, 6)
				if !ok {
					okb = false
					break
				}
			}
			in = append(in, v)
		}
		if okb {
			// streams are *bytes.Reader values: rewound before every execution (a call is executed by one
			// goroutine at a time), so multipart and octet-stream operations take part too
			calls = append(calls, c19Call{op: op.Name, in: in})
		}
	}
	if len(calls) == 0 {
		return nil
	}
	// the override equals the client's own base URL plus a trailing slash, so outcomes do not depend on it
	overrides := map[reflect.Value]*url.URL{}
	for ci, base := range []string{"http://verif.local/", ts.URL + "/", "http://verif.local/"} {
		if u, err := url.Parse(base); err == nil {
			overrides[clients[ci]] = u
		}
	}
	for i := range calls {
		calls[i].override = i%3 == 1
	}
	do := func(cl reflect.Value, c c19Call) (o c19Outcome) {
		defer func() {
			if p := recover(); p != nil {
				o.err = "PANIC: " + fmt.Sprint(p)
			}
		}()
		m := cl.MethodByName(c.op)
		for _, v := range c.in {
			rewindReaders(v, 0)
		}
		ctx := context.Background()
		args := append([]reflect.Value{}, c.in...)
		if u := overrides[cl]; u != nil && pkg.WithServerURL != nil && c.override {
			// per-call server URL override with ONE *url.URL shared by all calls of this client (read-only for ogen)
			var opt any
			ctx, opt = pkg.WithServerURL(ctx, u)
			if opt != nil && m.Type().IsVariadic() {
				args = append(args, reflect.ValueOf(opt))
			}
		}
		out := m.Call(append([]reflect.Value{reflect.ValueOf(ctx)}, args...))
		if e := out[len(out)-1].Interface(); e != nil {
			o.err = errClass(e.(error))
			return
		}
		if len(out) == 2 {
			o.snap = SnapValue(out[0])
		}
		return
	}
	// phase A: sequential reference, per client
	ref := make([][]c19Outcome, len(clients))
	for ci, cl := range clients {
		ref[ci] = make([]c19Outcome, len(calls))
		for i, c := range calls {
			ref[ci][i] = do(cl, c)
		}
	}
	// sanity: the two transports agree sequentially (else the comparison below would blame concurrency)
	seqDisagree := 0
	for i := range calls {
		if (ref[0][i].err == "") != (ref[1][i].err == "") || (ref[0][i].err == "") != (ref[2][i].err == "") {
			seqDisagree++
		}
	}
	r.Count("sequential_transport_disagreements", seqDisagree)
	// phase B: concurrent
	disp.delays = true
	for round := 0; round < pc.Rounds; round++ {
		for ci, cl := range clients {
			got := make([]c19Outcome, len(calls))
			var wg sync.WaitGroup
			var next atomic.Int64
			order := make([]int, len(calls))
			for i := range order {
				order[i] = i
			}
			prng := ev.NewRand(r.Seed, "c19order", pc.Origin, fmt.Sprint(round, ci))
			for i := len(order) - 1; i > 0; i-- {
				j := prng.Intn(i + 1)
				order[i], order[j] = order[j], order[i]
			}
			for g := 0; g < pc.Goroutines; g++ {
				wg.Add(1)
				go func() {
					defer wg.Done()
					for {
						k := int(next.Add(1)) - 1
						if k >= len(order) {
							return
						}
						i := order[k]
						got[i] = do(cl, calls[i])
					}
				}()
			}
			wg.Wait()
			for i := range calls {
				r.Eval(1)
				r.Distinct(fmt.Sprintf("%s|%d|%d|%d", pc.Origin, ci, round, i))
				a, b := ref[ci][i], got[i]
				w := func() map[string]any {
					return map[string]any{"origin": pc.Origin, "operation": calls[i].op, "transport": transports[ci], "round": round, "sequential": map[string]any{"error": a.err, "result": Descr(a.snap)}, "concurrent": map[string]any{"error": b.err, "result": Descr(b.snap)}, "arguments": descrArgs(calls[i].in)}
				}
				switch {
				case strings.HasPrefix(b.err, "PANIC"):
					r.Violate("concurrent/panic", fmt.Sprintf("%s %s: %s", pc.Origin, calls[i].op, b.err), w())
				case a.err != b.err:
					r.Violate("concurrent/outcome-differs", fmt.Sprintf("%s %s: alone %q, concurrently %q", pc.Origin, calls[i].op, a.err, b.err), w())
				case a.err == "":
					if dd := Diff(a.snap, b.snap, nil); dd != "" {
						r.Violate("concurrent/result-differs", fmt.Sprintf("%s %s: the result differs from the one obtained alone: %s", pc.Origin, calls[i].op, dd), w())
					}
				}
				if a.err == "" {
					r.Count("calls_succeeding", 1)
				} else {
					r.Count("calls_failing", 1)
				}
			}
		}
	}
	r.Count("packages", 1)
	r.Count("middleware_invocations", int(mwSeen.Load()))
	r.Set("max_concurrent_handler_invocations:"+pc.Origin, disp.maxIn.Load())
	if disp.maxIn.Load() < 2 {
		r.Inconclusive("no-concurrency-achieved", pc.Origin)
	}
	r.Sample(map[string]any{"origin": pc.Origin, "calls_in_list": len(calls), "goroutines": pc.Goroutines, "rounds": pc.Rounds, "max_concurrent_handler_invocations": disp.maxIn.Load(), "handler_calls": disp.calls.Load()})
	return nil
}

func hasAnyReader(in []reflect.Value) bool {
	for _, v := range in {
		if valueHasReader(v, 0) {
			return true
		}
	}
	return false
}

// valueHasReader looks at the dynamic value (interface-typed requests hide their variant's fields).
func valueHasReader(v reflect.Value, depth int) bool {
	if !v.IsValid() || depth > 8 {
		return false
	}
	switch v.Kind() {
	case reflect.Interface, reflect.Pointer:
		if v.IsNil() {
			return false
		}
		if _, ok := v.Interface().(io.Reader); ok {
			return true
		}
		return valueHasReader(v.Elem(), depth+1)
	case reflect.Struct:
		if v.Type() == tMPFile {
			return true
		}
		for i := 0; i < v.NumField(); i++ {
			if v.Type().Field(i).IsExported() && valueHasReader(v.Field(i), depth+1) {
				return true
			}
		}
	case reflect.Slice, reflect.Array:
		for i := 0; i < v.Len(); i++ {
			if valueHasReader(v.Index(i), depth+1) {
				return true
			}
		}
	}
	return false
}

func descrArgs(in []reflect.Value) []string {
	var out []string
	for _, v := range in {
		out = append(out, Descr(SnapValue(v)))
	}
	return out
}

// ---------------------------------------------------------------- key/value spec + porcupine

type kvIn struct {
	Op       string // put | get | delete | cas
	Key      string
	Val, Old string
}
type kvOut struct {
	Val   string
	Found bool
	OK    bool
}

type kvStore struct {
	mu sync.Mutex
	m  map[string]string
}

// kvDisp implements the KV spec's handler on a mutex-protected map. Operation names and
// argument shapes are read by reflection (PutKv / GetKv / DeleteKv / Cas).
type kvDisp struct {
	pkg   *Package
	st    *kvStore
	resT  map[string]reflect.Type
	inMax atomic.Int64
	in    atomic.Int64
}

func field(v reflect.Value, name string) reflect.Value {
	for v.Kind() == reflect.Pointer || v.Kind() == reflect.Interface {
		v = v.Elem()
	}
	return v.FieldByName(name)
}

func (d *kvDisp) Call(iface, method string, args []any) []any {
	if iface != "Handler" {
		return nil
	}
	n := d.in.Add(1)
	for {
		m := d.inMax.Load()
		if n <= m || d.inMax.CompareAndSwap(m, n) {
			break
		}
	}
	defer d.in.Add(-1)
	h := hashOf(fmt.Sprint(args[1:]...))
	for i := 0; i < int(h%4); i++ {
		runtime.Gosched()
	}
	rt := d.resT[method]
	res := reflect.New(rt.Elem()) // responses are pointers to structs {Value string; Found bool; Done bool}
	d.st.mu.Lock()
	defer d.st.mu.Unlock()
	switch method {
	case "PutKv":
		key := field(reflect.ValueOf(args[2]), "Key").String()
		val := field(reflect.ValueOf(args[1]), "Value").String()
		d.st.m[key] = val
		res.Elem().FieldByName("Done").SetBool(true)
	case "GetKv":
		key := field(reflect.ValueOf(args[1]), "Key").String()
		v, ok := d.st.m[key]
		res.Elem().FieldByName("Value").SetString(v)
		res.Elem().FieldByName("Found").SetBool(ok)
	case "DeleteKv":
		key := field(reflect.ValueOf(args[1]), "Key").String()
		_, ok := d.st.m[key]
		delete(d.st.m, key)
		res.Elem().FieldByName("Found").SetBool(ok)
	case "Cas":
		req := reflect.ValueOf(args[1])
		key, old, nw := field(req, "Key").String(), field(req, "Old").String(), field(req, "New").String()
		if cur, ok := d.st.m[key]; ok && cur == old {
			d.st.m[key] = nw
			res.Elem().FieldByName("Done").SetBool(true)
		}
	}
	return []any{res.Interface(), nil}
}

func c19KV(r *ev.Run, pc *C19Pkg) error {
	pkg := Lookup(pc.Key)
	if pkg == nil {
		return fmt.Errorf("package %s not linked", pc.Key)
	}
	ht := pkg.Type("Handler")
	model := porcupine.Model{
		Partition: func(h []porcupine.Operation) [][]porcupine.Operation {
			by := map[string][]porcupine.Operation{}
			for _, o := range h {
				k := o.Input.(kvIn).Key
				by[k] = append(by[k], o)
			}
			keys := make([]string, 0, len(by))
			for k := range by {
				keys = append(keys, k)
			}
			sort.Strings(keys)
			var out [][]porcupine.Operation
			for _, k := range keys {
				out = append(out, by[k])
			}
			return out
		},
		Init: func() any { return "\x00absent" },
		Step: func(st, in, out any) (bool, any) {
			s, i, o := st.(string), in.(kvIn), out.(kvOut)
			present := s != "\x00absent"
			switch i.Op {
			case "put":
				return o.OK, i.Val
			case "get":
				if !present {
					return !o.Found, s
				}
				return o.Found && o.Val == s, s
			case "delete":
				return o.Found == present, "\x00absent"
			case "cas":
				if present && s == i.Old {
					return o.OK, i.Val
				}
				return !o.OK, s
			}
			return false, s
		},
		DescribeOperation: func(in, out any) string { return fmt.Sprintf("%+v -> %+v", in, out) },
	}
	for round := 0; round < pc.Rounds; round++ {
		d := &kvDisp{pkg: pkg, st: &kvStore{m: map[string]string{}}, resT: map[string]reflect.Type{}}
		for i := 0; i < ht.NumMethod(); i++ {
			if m := ht.Method(i); m.Type.NumOut() == 2 {
				d.resT[m.Name] = m.Type.Out(0)
			}
		}
		var kvCfg ServerConfig
		if round%4 >= 2 {
			on := true
			kvCfg.Middleware = c19Middlewares(2, &atomic.Int64{}, &on)
		}
		srv, err := pkg.NewServer(d, kvCfg)
		if err != nil {
			return err
		}
		ts := httptest.NewServer(srv)
		var cl any
		if round%2 == 0 {
			cl, err = pkg.NewClient(d, ClientConfig{URL: ts.URL, HTTP: &http.Client{Transport: &http.Transport{MaxIdleConnsPerHost: 64}}})
		} else {
			cl, err = pkg.NewClient(d, ClientConfig{URL: "http://verif.local", HTTP: &WireTransport{H: srv}})
		}
		if err != nil {
			ts.Close()
			return err
		}
		clv := reflect.ValueOf(cl)
		start := time.Now()
		var mu sync.Mutex
		var hist []porcupine.Operation
		var wg sync.WaitGroup
		keys := []string{"k1", "k2", "k3"}
		perG := pc.Calls / pc.Goroutines
		if perG < 4 {
			perG = 4
		}
		var failures atomic.Int64
		for g := 0; g < pc.Goroutines; g++ {
			wg.Add(1)
			go func(g int) {
				defer wg.Done()
				rng := ev.NewRand(r.Seed, "kv", fmt.Sprint(round, g))
				for k := 0; k < perG; k++ {
					in := kvIn{Key: ev.Pick(rng, keys)}
					uid := fmt.Sprintf("g%d-%d-%d", g, round, k) // unique written values: a read identifies its write
					var out kvOut
					var cerr error
					call := func(name string, args ...reflect.Value) []reflect.Value {
						m := clv.MethodByName(name)
						return m.Call(append([]reflect.Value{reflect.ValueOf(context.Background())}, args...))
					}
					mk := func(t reflect.Type, set func(v reflect.Value)) reflect.Value {
						if t.Kind() == reflect.Pointer {
							p := reflect.New(t.Elem())
							set(p.Elem())
							return p
						}
						v := reflect.New(t).Elem()
						set(v)
						return v
					}
					t0 := time.Since(start).Nanoseconds()
					switch rng.Intn(4) {
					case 0:
						in.Op, in.Val = "put", uid
						m := clv.MethodByName("PutKv")
						req := mk(m.Type().In(1), func(v reflect.Value) { v.FieldByName("Value").SetString(uid) })
						par := mk(m.Type().In(2), func(v reflect.Value) { v.FieldByName("Key").SetString(in.Key) })
						res := call("PutKv", req, par)
						if e := res[1].Interface(); e != nil {
							cerr = e.(error)
						} else {
							out.OK = field(res[0], "Done").Bool()
						}
					case 1:
						in.Op = "get"
						m := clv.MethodByName("GetKv")
						par := mk(m.Type().In(1), func(v reflect.Value) { v.FieldByName("Key").SetString(in.Key) })
						res := call("GetKv", par)
						if e := res[1].Interface(); e != nil {
							cerr = e.(error)
						} else {
							out.Val, out.Found = field(res[0], "Value").String(), field(res[0], "Found").Bool()
						}
					case 2:
						in.Op = "delete"
						m := clv.MethodByName("DeleteKv")
						par := mk(m.Type().In(1), func(v reflect.Value) { v.FieldByName("Key").SetString(in.Key) })
						res := call("DeleteKv", par)
						if e := res[1].Interface(); e != nil {
							cerr = e.(error)
						} else {
							out.Found = field(res[0], "Found").Bool()
						}
					default:
						in.Op, in.Val = "cas", uid
						// old value: something this goroutine saw recently, or a miss
						in.Old = fmt.Sprintf("g%d-%d-%d", rng.Intn(pc.Goroutines), round, rng.Intn(perG))
						m := clv.MethodByName("Cas")
						req := mk(m.Type().In(1), func(v reflect.Value) {
							v.FieldByName("Key").SetString(in.Key)
							v.FieldByName("Old").SetString(in.Old)
							v.FieldByName("New").SetString(in.Val)
						})
						res := call("Cas", req)
						if e := res[1].Interface(); e != nil {
							cerr = e.(error)
						} else {
							out.OK = field(res[0], "Done").Bool()
						}
					}
					t1 := time.Since(start).Nanoseconds()
					if cerr != nil {
						failures.Add(1)
						continue // in-process loopback: a failed call never reached the store or is reported below
					}
					mu.Lock()
					hist = append(hist, porcupine.Operation{ClientId: g, Input: in, Output: out, Call: t0, Return: t1})
					mu.Unlock()
				}
			}(g)
		}
		wg.Wait()
		ts.Close()
		r.Eval(len(hist))
		r.DistinctBulk(int64(len(hist)))
		r.Count("kv_operations_recorded", len(hist))
		if failures.Load() > 0 {
			r.Violate("kv/call-failed", fmt.Sprintf("%d key/value calls failed on a healthy in-process server", failures.Load()), map[string]any{"round": round})
		}
		res, info := porcupine.CheckOperationsVerbose(model, hist, 2*time.Minute)
		switch res {
		case porcupine.Ok:
			r.Count("kv_histories_linearizable", 1)
		case porcupine.Unknown:
			r.Inconclusive("porcupine-timeout", nil)
		default:
			_ = info
			var sample []string
			for i, o := range hist {
				if i < 40 {
					sample = append(sample, fmt.Sprintf("c%d [%d,%d] %+v -> %+v", o.ClientId, o.Call, o.Return, o.Input, o.Output))
				}
			}
			r.Violate("kv/not-linearizable", fmt.Sprintf("client-side history of %d operations through generated client+server is not linearizable against a register model", len(hist)), map[string]any{"round": round, "history_head": sample})
		}
		r.Set(fmt.Sprintf("kv_max_concurrent_handlers_round%d", round), d.inMax.Load())
		if round == 0 {
			var sample []string
			for i, o := range hist {
				if i < 6 {
					sample = append(sample, fmt.Sprintf("c%d [%d,%d] %+v -> %+v", o.ClientId, o.Call, o.Return, o.Input, o.Output))
				}
			}
			r.Sample(map[string]any{"kv_history_operations": len(hist), "head": sample, "max_concurrent_handlers": d.inMax.Load()})
		}
	}
	return nil
}


// trackedReader is a caller-owned request stream: it counts reads that happen after the client call returned.
type trackedReader struct {
	left     int
	returned atomic.Bool
	late     atomic.Int64
	reads    atomic.Int64
}

func (t *trackedReader) Read(p []byte) (int, error) {
	t.reads.Add(1)
	if t.returned.Load() {
		t.late.Add(1) // started after the call returned
	}
	time.Sleep(time.Millisecond) // a slow source: the window in which the transport gives up
	defer func() {
		if t.returned.Load() {
			t.late.Add(1) // still running when the call returned
		}
	}()
	if t.left <= 0 {
		return 0, io.EOF
	}
	n := len(p)
	if n > 512 {
		n = 512
	}
	if n > t.left {
		n = t.left
	}
	for i := 0; i < n; i++ {
		p[i] = 'x'
	}
	t.left -= n
	return n, nil
}

// abortTransport gives up after a few bytes of the body, closing it as every RoundTripper must.
type abortTransport struct{ n *atomic.Int64 }

func (a abortTransport) Do(req *http.Request) (*http.Response, error) {
	if req.Body != nil {
		if a.n.Add(1)%2 == 0 {
			buf := make([]byte, 4)
			io.ReadFull(req.Body, buf)
		} else {
			time.Sleep(300 * time.Microsecond) // gives up before reading anything, while the source is being read
		}
		req.Body.Close()
	}
	return nil, fmt.Errorf("verif: transport gave up mid-body")
}

// c19Abandoned: streamed request bodies that the transport abandons. Once the generated client method has returned,
// nothing of ogen may still read the caller's stream (the caller may rewind and reuse it): every operation whose
// request is a struct with an io.Reader member is called with a slow counting reader through a transport that fails
// after four bytes; reads observed after the return are reported.
func c19Abandoned(r *ev.Run, pkg *Package, pc *C19Pkg, disp Dispatcher, ht reflect.Type, ops []OpInfo) {
	cl, err := pkg.NewClient(disp, ClientConfig{URL: "http://verif.local", HTTP: abortTransport{n: &atomic.Int64{}}})
	if err != nil {
		return
	}
	clv := reflect.ValueOf(cl)
	for _, op := range ops {
		hm, ok := ht.MethodByName(op.Name)
		cm := clv.MethodByName(op.Name)
		if !ok || !cm.IsValid() {
			continue
		}
		// ctx, req[, params]: the request must be a struct (or pointer to one) with an io.Reader field
		if hm.Type.NumIn() < 2 {
			continue
		}
		reqT := hm.Type.In(1)
		st := reqT
		if st.Kind() == reflect.Pointer {
			st = st.Elem()
		}
		if st.Kind() != reflect.Struct {
			continue
		}
		fi := -1
		for i := 0; i < st.NumField(); i++ {
			if st.Field(i).Type == tReader && st.Field(i).IsExported() {
				fi = i
			}
		}
		if fi < 0 {
			continue
		}
		late, calls := int64(0), 0
		for k := 0; k < 25; k++ {
			tr := &trackedReader{left: 64 << 10}
			holder := reflect.New(st)
			holder.Elem().Field(fi).Set(reflect.ValueOf(tr))
			in := []reflect.Value{reflect.ValueOf(context.Background())}
			if reqT.Kind() == reflect.Pointer {
				in = append(in, holder)
			} else {
				in = append(in, holder.Elem())
			}
			okArgs := true
			for i := 2; i < hm.Type.NumIn(); i++ {
				b := &Builder{Pkg: pkg, Rng: r.Rand("c19-abandoned", pc.Origin, op.Name), Tame: true, MaxDepth: 2, NonEmpty: true}
				v, ok := b.Validated(hm.Type.In(i), 6)
				if !ok {
					okArgs = false
					break
				}
				in = append(in, v)
			}
			if !okArgs || cm.Type().NumIn() != len(in) && !cm.Type().IsVariadic() {
				break
			}
			func() {
				defer func() { recover() }()
				cm.Call(in)
			}()
			tr.returned.Store(true)
			time.Sleep(4 * time.Millisecond)
			late += tr.late.Load()
			calls++
			r.Eval(1)
		}
		if calls > 0 {
			r.Count("abandoned_stream_calls", calls)
			r.Distinct("abandoned|" + pc.Origin + "|" + op.Name)
		}
		if late > 0 {
			r.Violate("concurrent/request-stream-read-after-call-returned", fmt.Sprintf("%s %s: %d reads of the caller's request stream happened after the client call had returned (transport gave up after 4 bytes, %d calls)", pc.Origin, op.Name, late, calls),
				map[string]any{"origin": pc.Origin, "operation": op.Name, "late_reads": late, "calls": calls})
		}
	}
}
