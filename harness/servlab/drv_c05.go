package servlab

import (
	"encoding/json"
	"fmt"
	"net/http"
	"net/http/httptest"
	"net/url"
	"reflect"
	"runtime"
	"sort"
	"strings"

	"verifharness/internal/ev"
)

// ------------------------------------------------------------------ data

type C05Template struct {
	Path    string            `json:"path"`
	Methods map[string]string `json:"methods"` // METHOD -> operationId
}

type C05Set struct {
	Key       string        `json:"key"`
	Templates []C05Template `json:"templates"`
	Origin    string        `json:"origin"` // exhaustive | random | regression | corpus
}

type C05Data struct {
	Sets   []C05Set `json:"sets"`
	MaxLen int      `json:"max_len"`
	Only   string   `json:"only,omitempty"` // replay: "key|method|target"
	// EscapesOnly: judge only the requests of the escape-equivalence classes (C12's routing clause)
	EscapesOnly bool `json:"escapes_only,omitempty"`
}

func init() { drivers["c05"] = runC05 }

// ------------------------------------------------------------------ reference normaliser (same text as lib/c12.Ref, kept local: servlab must not import vf packages)

func refIsHex(c byte) bool {
	return c >= '0' && c <= '9' || c >= 'a' && c <= 'f' || c >= 'A' && c <= 'F'
}
func refHexVal(c byte) byte {
	switch {
	case c >= '0' && c <= '9':
		return c - '0'
	case c >= 'a' && c <= 'f':
		return c - 'a' + 10
	}
	return c - 'A' + 10
}
func refUnreserved(c byte) bool {
	return c >= 'a' && c <= 'z' || c >= 'A' && c <= 'Z' || c >= '0' && c <= '9' || c == '-' || c == '.' || c == '_' || c == '~'
}

// RefNormalize is the reference for uri.NormalizeEscapedPath.
func RefNormalize(s string) (string, bool) {
	var b strings.Builder
	for i := 0; i < len(s); i++ {
		c := s[i]
		if c != '%' {
			b.WriteByte(c)
			continue
		}
		if i+2 >= len(s) || !refIsHex(s[i+1]) || !refIsHex(s[i+2]) {
			return "", false
		}
		o := refHexVal(s[i+1])<<4 | refHexVal(s[i+2])
		if refUnreserved(o) {
			b.WriteByte(o)
		} else {
			const up = "0123456789ABCDEF"
			b.WriteByte('%')
			b.WriteByte(up[o>>4])
			b.WriteByte(up[o&15])
		}
		i += 2
	}
	return b.String(), true
}

// ------------------------------------------------------------------ reference router

type refTemplate struct {
	C05Template
	parts  []Part
	static bool
	nparam int
}

// matchAll enumerates every assignment of '/'-free strings to the
// parameters of t that makes the concatenation equal p.
func matchAll(parts []Part, p string) [][]string { return matchAllX(parts, p, false) }

// matchAllX: with relaxed, parameters may contain '/' (the caller uses relaxed only
// for route sets in which some parameter is directly followed by a non-slash literal).
func matchAllX(parts []Part, p string, relaxed bool) [][]string {
	var out [][]string
	var cur []string
	var rec func(i int, rest string)
	rec = func(i int, rest string) {
		if len(out) > 64 {
			return
		}
		if i == len(parts) {
			if rest == "" {
				out = append(out, append([]string(nil), cur...))
			}
			return
		}
		pt := parts[i]
		if pt.Param == "" {
			if strings.HasPrefix(rest, pt.Lit) {
				rec(i+1, rest[len(pt.Lit):])
			}
			return
		}
		for e := 0; e <= len(rest); e++ {
			if e > 0 && rest[e-1] == '/' {
				if !relaxed {
					break
				}
			}
			cur = append(cur, rest[:e])
			rec(i+1, rest[e:])
			cur = cur[:len(cur)-1]
		}
	}
	rec(0, p)
	return out
}

func methodSet(t *refTemplate) string {
	var ms []string
	for m := range t.Methods {
		ms = append(ms, m)
	}
	sort.Strings(ms)
	return strings.Join(ms, ",")
}

func normAllow(s string) string {
	var ms []string
	for _, m := range strings.Split(s, ",") {
		m = strings.TrimSpace(m)
		if m != "" {
			ms = append(ms, m)
		}
	}
	sort.Strings(ms)
	return strings.Join(ms, ",")
}

// ------------------------------------------------------------------ recording

type c05Call struct {
	op     string
	params any
}

type c05Rec struct{ calls []c05Call }

func (d *c05Rec) Call(iface, method string, args []any) []any {
	c := c05Call{op: method}
	if len(args) > 1 {
		c.params = args[len(args)-1]
	}
	d.calls = append(d.calls, c)
	return nil
}

// paramValues reads string path parameters in template order.
func paramValues(params any, names []string) ([]string, error) {
	if len(names) == 0 {
		return nil, nil
	}
	if params == nil {
		return nil, fmt.Errorf("handler got no params struct")
	}
	v := reflect.ValueOf(params)
	out := make([]string, len(names))
	for i, n := range names {
		var f reflect.Value
		want := strings.ToLower(strings.ReplaceAll(n, "_", ""))
		for k := 0; k < v.NumField(); k++ {
			if strings.ToLower(v.Type().Field(k).Name) == want {
				f = v.Field(k)
			}
		}
		if !f.IsValid() || f.Kind() != reflect.String {
			return nil, fmt.Errorf("no string field for path parameter %q in %s", n, v.Type())
		}
		out[i] = f.String()
	}
	return out, nil
}

// ------------------------------------------------------------------ driver

var allMethods = []string{"GET", "HEAD", "POST", "PUT", "PATCH", "DELETE", "OPTIONS", "TRACE", "CONNECT"}

type c05Req struct {
	Method string `json:"method"`
	Target string `json:"target"`             // request-target as sent on the wire (escaped), or
	Path   string `json:"path,omitempty"`     // hand-built URL.Path
	Raw    string `json:"raw_path,omitempty"` // hand-built URL.RawPath
	Hand   bool   `json:"hand_built,omitempty"`
	Class  string `json:"class"`
}

type c05Obs struct {
	Status   int      `json:"status"`
	Allow    string   `json:"allow,omitempty"`
	ACAM     string   `json:"access_control_allow_methods,omitempty"`
	Op       string   `json:"op,omitempty"`
	Values   []string `json:"values,omitempty"`
	Calls    int      `json:"handler_calls"`
	Panic    string   `json:"panic,omitempty"`
	FindOK   bool     `json:"find_ok"`
	FindName string   `json:"find_name,omitempty"`
	FindArgs []string `json:"find_args,omitempty"`
	FindPat  string   `json:"find_pattern,omitempty"`
	FindOpID string   `json:"find_operation_id,omitempty"`
}

func runC05(r *ev.Run, data json.RawMessage) error {
	var d C05Data
	if err := json.Unmarshal(data, &d); err != nil {
		return err
	}
	var firstErr error
	ev.Parallel(len(d.Sets), runtime.NumCPU(), func(i int) {
		if err := c05Set(r, &d, &d.Sets[i], i); err != nil && firstErr == nil {
			firstErr = err
		}
	})
	return firstErr
}

func c05Set(r *ev.Run, d *C05Data, set *C05Set, idx int) error {
	pkg := Lookup(set.Key)
	if pkg == nil {
		return fmt.Errorf("package %s not linked", set.Key)
	}
	// operation name per (method, template)
	opOf := map[string]string{}
	for _, o := range pkg.Ops {
		opOf[o.Method+" "+o.Path] = o.Name
	}
	var ts []*refTemplate
	tmplOfOp := map[string]*refTemplate{}
	methOfOp := map[string]string{}
	tails := map[byte]bool{}
	for _, t := range set.Templates {
		rt := &refTemplate{C05Template: t, parts: ParseTemplate(t.Path)}
		rt.static = true
		for i, p := range rt.parts {
			if p.Param != "" {
				rt.static = false
				rt.nparam++
				if i+1 < len(rt.parts) && rt.parts[i+1].Lit != "" {
					tails[rt.parts[i+1].Lit[0]] = true
				}
			}
		}
		for m := range t.Methods {
			name, ok := opOf[m+" "+t.Path]
			if !ok {
				return fmt.Errorf("%s: no generated operation for %s %s (have %v)", set.Key, m, t.Path, opOf)
			}
			tmplOfOp[name] = rt
			methOfOp[name] = m
		}
		ts = append(ts, rt)
	}
	const prefix = "/zq9"
	rec := &c05Rec{}
	srv, err := pkg.NewServer(rec, ServerConfig{})
	if err != nil {
		return err
	}
	recP := &c05Rec{}
	srvP, err := pkg.NewServer(recP, ServerConfig{PathPrefix: prefix})
	if err != nil {
		return err
	}

	rng := r.Rand("c05", set.Key)
	reqs := c05Requests(ts, tails, d.MaxLen, rng)
	hasParam := false
	for _, t := range ts {
		if !t.static {
			hasParam = true
		}
	}

	paramNames := func(t *refTemplate) []string {
		var ns []string
		for _, p := range t.parts {
			if p.Param != "" {
				ns = append(ns, p.Param)
			}
		}
		return ns
	}

	observe := func(s Server, rc *c05Rec, q c05Req, pfx string) (o c05Obs) {
		rc.calls = rc.calls[:0]
		var u *url.URL
		if q.Hand {
			u = &url.URL{Path: pfx + q.Path, RawPath: ""}
			if q.Raw != "" {
				u.RawPath = pfx + q.Raw
			}
		} else {
			var err error
			u, err = url.ParseRequestURI(pfx + q.Target)
			if err != nil {
				o.Status = -1
				return
			}
		}
		req := &http.Request{Method: q.Method, URL: u, Header: http.Header{}, Body: http.NoBody, Host: "x", Proto: "HTTP/1.1", ProtoMajor: 1, ProtoMinor: 1}
		w := httptest.NewRecorder()
		if p, txt := ev.Guard(func() { s.ServeHTTP(w, req) }); p {
			o.Panic = "ServeHTTP: " + txt
		}
		o.Status = w.Code
		o.Allow = w.Header().Get("Allow")
		o.ACAM = w.Header().Get("Access-Control-Allow-Methods")
		o.Calls = len(rc.calls)
		if len(rc.calls) > 0 {
			c := rc.calls[0]
			o.Op = c.op
			if t := tmplOfOp[c.op]; t != nil {
				vals, err := paramValues(c.params, paramNames(t))
				if err != nil {
					o.Panic = "harness: " + err.Error()
				}
				o.Values = vals
			}
		}
		if p, txt := ev.Guard(func() {
			ri, ok := s.VerifFindPath(q.Method, u)
			o.FindOK = ok
			if ok {
				o.FindName, o.FindArgs, o.FindPat, o.FindOpID = ri.Name, ri.Args, ri.PathPattern, ri.OperationID
			}
		}); p {
			o.Panic = "FindPath: " + txt
		}
		return
	}

	for qi, q := range reqs {
		if d.Only != "" && d.Only != set.Key+"|"+q.Method+"|"+q.Target+q.Raw {
			continue
		}
		if d.EscapesOnly && !(strings.HasPrefix(q.Class, "re-escaped") || q.Class == "malformed-rawpath" || strings.Contains(q.Target, "%") || q.Raw != "") {
			continue
		}
		o := observe(srv, rec, q, "")
		if o.Status == -1 {
			continue // not a valid request-target; nothing was sent
		}
		key := set.Key + "|" + q.Method + "|" + q.Target + "|" + q.Path + "|" + q.Raw
		r.Eval(1)
		if hasParam || o.Status != 404 {
			r.Distinct(key)
		}
		r.Count("status_"+fmt.Sprint(o.Status), 1)
		r.Count("class_"+q.Class, 1)

		// the path the router is specified to match on
		var pEsc string
		var escaped bool
		{
			var u *url.URL
			if q.Hand {
				u = &url.URL{Path: q.Path, RawPath: q.Raw}
			} else {
				u, _ = url.ParseRequestURI(q.Target)
			}
			pEsc = u.Path
			if u.RawPath != "" {
				if n, ok := RefNormalize(u.RawPath); ok {
					pEsc = n
					escaped = true
				}
			}
		}
		type m1 struct {
			t    *refTemplate
			asgs [][]string
		}
		type verdict struct{ sig, rule string }
		var lastM []m1
		var lastRestricted bool
		unesc := func(vs []string) []string {
			out := make([]string, len(vs))
			for i, v := range vs {
				if escaped {
					if u, err := url.PathUnescape(v); err == nil {
						out[i] = u
						continue
					}
				}
				out[i] = v
			}
			return out
		}
		// judge decides the observation against the reference router. relaxed=false is the
		// property's semantics; relaxed=true lets a parameter that is directly followed by a
		// non-slash literal span '/' (used only to *name* one known defect, never to excuse another).
		judge := func(relaxed bool) []verdict {
			var vs []verdict
			vadd := func(sig, rule string) { vs = append(vs, verdict{sig, rule}) }
			var M []m1
			var staticHit *refTemplate
			for _, t := range ts {
				if a := matchAllX(t.parts, pEsc, relaxed); len(a) > 0 {
					M = append(M, m1{t, a})
					if t.static {
						staticHit = t
					}
				}
			}
			restricted := false
			for _, m := range M {
				for _, a := range m.asgs {
					ok := true
					for _, v := range a {
						if v == "" {
							ok = false
						}
						for k := 0; k < len(v); k++ {
							if tails[v[k]] || v[k] == '/' || v[k] == '%' {
								ok = false
							}
						}
					}
					if ok {
						restricted = true
					}
				}
			}
			if staticHit != nil {
				restricted = true
			}
			if !relaxed {
				lastM, lastRestricted = M, restricted
			}
			routed400 := false
			// 1. soundness
			if o.Calls >= 1 {
				t := tmplOfOp[o.Op]
				switch {
				case t == nil:
					vadd("unknown-operation", "handler method is not an operation of the spec")
				case methOfOp[o.Op] != q.Method:
					vadd("wrong-method", fmt.Sprintf("operation %s is %s but request method is %s", o.Op, methOfOp[o.Op], q.Method))
				default:
					asgs := matchAllX(t.parts, pEsc, relaxed)
					found := false
					for _, a := range asgs {
						if reflect.DeepEqual(unesc(a), o.Values) || (len(a) == 0 && len(o.Values) == 0) {
							found = true
						}
					}
					if !found {
						sig := "unsound-dispatch"
						for _, v := range o.Values {
							if strings.Contains(v, "/") && !strings.Contains(strings.ToUpper(pEsc), "%2F") {
								sig = "unsound-dispatch/slash-in-argument"
							}
						}
						if len(asgs) > 0 && sig == "unsound-dispatch" {
							sig = "unsound-dispatch/wrong-arguments"
						}
						vadd(sig, fmt.Sprintf("request path %q is not template %s instantiated with the received arguments %q (slash-free assignments: %v)", pEsc, t.Path, o.Values, asgs))
					}
					if staticHit != nil && t != staticHit {
						vadd("static-not-preferred", fmt.Sprintf("path equals static template %s but templated %s ran", staticHit.Path, t.Path))
					}
				}
				if o.Status < 200 || o.Status > 299 {
					vadd("handler-ran-but-status", fmt.Sprintf("handler ran but status is %d", o.Status))
				}
			}
			// 2. nothing matches -> 404
			if len(M) == 0 && (o.Calls > 0 || o.Status != 404) {
				if o.Calls == 0 {
					vadd("no-template-matches-but-not-404", fmt.Sprintf("no template matches %q under any slash-free assignment, status %d", pEsc, o.Status))
				}
			}
			// 3. 405 / OPTIONS default
			if o.Calls == 0 && (o.Status == 405 || (o.Status == 204 && q.Method == "OPTIONS")) {
				hdr := o.Allow
				if o.Status == 204 {
					hdr = o.ACAM
				}
				ok := false
				for _, m := range M {
					if _, def := m.t.Methods[q.Method]; !def && normAllow(hdr) == methodSet(m.t) {
						if staticHit == nil || m.t == staticHit {
							ok = true
						}
					}
				}
				if !ok {
					vadd("allow-header", fmt.Sprintf("status %d with method list %q does not equal the defined methods of a matching template on which %s is undefined", o.Status, hdr, q.Method))
				}
			} else if o.Calls == 0 && o.Status == 400 {
				// routed, then the parameter decoder refused a value (an empty required path parameter)
				routed400 = true
				okEmpty := false
				for _, m := range M {
					if _, def := m.t.Methods[q.Method]; !def {
						continue
					}
					for _, a := range m.asgs {
						for _, v := range a {
							if v == "" {
								okEmpty = true
							}
						}
					}
				}
				if !okEmpty {
					vadd("refused-400", "status 400 but no matching template defines the method with an assignment containing an empty value")
				}
			} else if o.Calls == 0 && o.Status != 404 {
				vadd("unexpected-status", fmt.Sprintf("no handler ran and status is %d (expected 404, 405, 400 for an empty argument, or OPTIONS 204)", o.Status))
			}
			// 4. restricted completeness
			if restricted && o.Calls == 0 && o.Status == 404 {
				vadd("instance-not-routed", fmt.Sprintf("%q is an instance of a template with slash-free, tail-free, non-empty values (or equals a static template) but got 404", pEsc))
			}
			if staticHit != nil && o.Calls == 0 && (o.Status == 405 || o.Status == 204) {
				if _, def := staticHit.Methods[q.Method]; def {
					vadd("static-method-defined-but-405", "method is defined on the static template equal to the path")
				}
			}
			if restricted && o.Calls == 0 && (o.Status == 405 || o.Status == 204) && staticHit == nil {
				// method defined on every matching template that has a restricted assignment -> must have been dispatched
				// (weaker, unambiguous form: exactly one template matches)
				if len(M) == 1 {
					if _, def := M[0].t.Methods[q.Method]; def {
						vadd("method-defined-but-405", "single matching template defines the method")
					}
				}
			}
			// 5. FindPath agrees with serving
			if o.FindOK != (o.Calls > 0 || routed400) {
				vadd("findpath-disagrees", fmt.Sprintf("FindPath found=%v but handler invoked=%v", o.FindOK, o.Calls > 0))
			} else if o.FindOK && o.Calls > 0 {
				t := tmplOfOp[o.Op]
				if o.FindName != o.Op || (t != nil && (o.FindPat != t.Path || o.FindOpID != t.Methods[q.Method])) {
					vadd("findpath-disagrees", fmt.Sprintf("FindPath reports %s %s %s, serving ran %s", o.FindName, o.FindPat, o.FindOpID, o.Op))
				} else {
					fa := o.FindArgs
					if !escaped {
						// FindPath leaves args as they are when RawPath is empty; so does the handler
					}
					if !(len(fa) == 0 && len(o.Values) == 0) && !reflect.DeepEqual(fa, o.Values) {
						vadd("findpath-args-disagree", fmt.Sprintf("FindPath args %q, handler received %q", fa, o.Values))
					}
				}
			}
			return vs
		}
		strict := judge(false)
		wit := func(rule string) map[string]any {
			var tm []string
			for _, t := range set.Templates {
				tm = append(tm, fmt.Sprintf("%s [%s]", t.Path, methodSet(&refTemplate{C05Template: t})))
			}
			var mm []string
			for _, m := range lastM {
				mm = append(mm, m.t.Path)
			}
			return map[string]any{"set": set.Key, "templates": tm, "request": q, "observed": o, "rule": rule, "matched_on": pEsc, "reference_matching_templates": mm, "restricted_instance": lastRestricted, "origin": set.Origin}
		}
		viol := func(sig, rule string) {
			r.Violate("router/"+sig, fmt.Sprintf("templates %v: %s %s -> status %d op %q values %q: %s", templPaths(set), q.Method, q.Target+q.Raw, o.Status, o.Op, o.Values, rule), wit(rule))
		}
		if o.Panic != "" {
			if strings.HasPrefix(o.Panic, "harness") {
				return fmt.Errorf("%s: %s", set.Key, o.Panic)
			}
			viol("panic", o.Panic)
			continue
		}
		if o.Calls > 1 {
			viol("handler-called-twice", "handler invoked more than once")
		}
		if len(strict) > 0 {
			nonSlashTail := false
			for b := range tails {
				if b != '/' {
					nonSlashTail = true
				}
			}
			if rel := judge(true); nonSlashTail && len(rel) == 0 && d.EscapesOnly {
				// slash-spanning parameters are C05's known finding, not a question of escape equivalence
				r.Count("slash_spanning_parameter_outcomes_left_to_C05", 1)
			} else if nonSlashTail && len(rel) == 0 {
				viol("param-with-non-slash-tail-spans-slash", "route set has a parameter directly followed by a non-slash literal, and the outcome conforms only if parameters may contain '/': "+strict[0].sig+": "+strict[0].rule)
			} else {
				for _, v := range strict {
					viol(v.sig, v.rule)
				}
			}
		}
		M := lastM
		restricted := lastRestricted

		// 6. prefix
		if qi%3 == 0 || d.Only != "" || d.EscapesOnly {
			op := observe(srvP, recP, q, prefix)
			if op.Status != -1 {
				r.Eval(1)
				if op.Panic != "" {
					viol("panic", "with path prefix: "+op.Panic)
				} else if op.Status != o.Status || op.Op != o.Op || !reflect.DeepEqual(op.Values, o.Values) || op.FindOK != o.FindOK || normAllow(op.Allow) != normAllow(o.Allow) {
					viol("prefix-changes-routing", fmt.Sprintf("with WithPathPrefix(%q) and the prefix prepended: status %d op %q values %q find=%v", prefix, op.Status, op.Op, op.Values, op.FindOK))
				}
				// the prefix itself needlessly escaped (C12: equivalent re-escapings reach the same operation
				// with the same arguments); the rest of the target keeps its own escapes
				if !q.Hand {
					qe := q
					qe.Target = "/%7Aq%39" + q.Target
					oe := observe(srvP, recP, qe, "")
					if oe.Status != -1 {
						r.Eval(1)
						r.Count("class_prefix-re-escaped", 1)
						if oe.Panic != "" {
							viol("panic", "with re-escaped path prefix: "+oe.Panic)
						} else if oe.Status != op.Status || oe.Op != op.Op || !reflect.DeepEqual(oe.Values, op.Values) || oe.FindOK != op.FindOK {
							viol("prefix-re-escaped-changes-routing", fmt.Sprintf("prefix %q sent as %q: status %d op %q values %q find=%v, with the plain prefix: status %d op %q values %q find=%v", prefix, "/%7Aq%39", oe.Status, oe.Op, oe.Values, oe.FindOK, op.Status, op.Op, op.Values, op.FindOK))
						}
					}
				}
				// the prefix glued to the route text without the separating slash (/zq9 + a/b): not "prefix + path"
				if !q.Hand && len(q.Target) > 1 && q.Target[0] == '/' && q.Target[1] != '/' {
					qg := q
					qg.Target = prefix + q.Target[1:]
					og := observe(srvP, recP, qg, "")
					if og.Status != -1 {
						r.Eval(1)
						r.Count("class_prefix-glued", 1)
						if og.Panic != "" {
							viol("panic", "with the prefix glued to the path: "+og.Panic)
						} else if og.Calls > 0 || og.Status != 404 || og.FindOK {
							viol("prefix-glued-is-routed", fmt.Sprintf("server with prefix %q answered %q (no slash between prefix and route): status %d op %q find=%v", prefix, qg.Target, og.Status, og.Op, og.FindOK))
						}
					}
				}
				// without the prefix in the request -> 404, handler not invoked
				on := observe(srvP, recP, q, "")
				if on.Status != -1 && (on.Calls > 0 || on.Status != 404 || on.FindOK) {
					viol("prefix-not-required", fmt.Sprintf("server with prefix %q answered a path lacking it: status %d op %q find=%v", prefix, on.Status, on.Op, on.FindOK))
				}
			}
		}
		if idx < 3 && qi%211 == 0 {
			r.Sample(map[string]any{"templates": templPaths(set), "request": q, "observed": o, "matched_on": pEsc, "reference_matches": len(M), "restricted_instance": restricted})
		}
	}
	r.Count("route_sets", 1)
	r.Count("route_sets_"+set.Origin, 1)
	return nil
}

func templPaths(set *C05Set) []string {
	var out []string
	for _, t := range set.Templates {
		out = append(out, t.Path)
	}
	return out
}

// c05Requests builds the request list for one route set.
func c05Requests(ts []*refTemplate, tails map[byte]bool, maxLen int, rng *ev.Rand) []c05Req {
	seen := map[string]bool{}
	var out []c05Req
	add := func(q c05Req) {
		k := q.Method + " " + q.Target + " " + q.Path + " " + q.Raw
		if seen[k] || len(out) > 60000 {
			return
		}
		seen[k] = true
		out = append(out, q)
	}
	// value pool
	vals := []string{"v", "w1", "zz", "a", "ab", "st", "b"}
	alpha := map[byte]bool{'/': true, 'v': true}
	for _, t := range ts {
		for _, p := range t.parts {
			if p.Param != "" {
				continue
			}
			for _, seg := range strings.Split(p.Lit, "/") {
				if seg != "" {
					vals = append(vals, seg)
				}
			}
			for k := 0; k < len(p.Lit); k++ {
				alpha[p.Lit[k]] = true
			}
		}
	}
	for b := range tails {
		if b != '/' {
			vals = append(vals, string([]byte{b}), "v"+string([]byte{b}), string([]byte{b})+"v", "v"+string([]byte{b})+"w")
		}
	}
	vals = append(vals, "", "x%2Fy", "%2F", "q/r", "x%2fy", "%41", "a%20b", "é", "..", ".", "a+b", "a+b%2Fc", "%2B", "a%2Bb+c", "+")
	dedup := map[string]bool{}
	var pool []string
	for _, v := range vals {
		if !dedup[v] {
			dedup[v] = true
			pool = append(pool, v)
		}
	}
	methodsFor := func(t *refTemplate, all bool) []string {
		if all {
			return allMethods
		}
		ms := []string{}
		for m := range t.Methods {
			ms = append(ms, m)
		}
		sort.Strings(ms)
		// one undefined method too
		for _, m := range allMethods {
			if _, ok := t.Methods[m]; !ok {
				ms = append(ms, m)
				break
			}
		}
		return ms
	}
	inst := func(t *refTemplate, choose func(i int) string) string {
		var b strings.Builder
		k := 0
		for _, p := range t.parts {
			if p.Param == "" {
				b.WriteString(p.Lit)
			} else {
				b.WriteString(choose(k))
				k++
			}
		}
		return b.String()
	}
	var instances []string
	for _, t := range ts {
		if t.static {
			instances = append(instances, t.Path)
			for _, m := range allMethods {
				add(c05Req{Method: m, Target: t.Path, Class: "static"})
			}
			continue
		}
		// every pool value in every position, others fresh
		for pos := 0; pos < t.nparam; pos++ {
			for vi, v := range pool {
				p := inst(t, func(i int) string {
					if i == pos {
						return v
					}
					return "v"
				})
				instances = append(instances, p)
				for _, m := range methodsFor(t, vi < 2) {
					add(c05Req{Method: m, Target: p, Class: "instance"})
				}
			}
		}
		// random combinations
		for n := 0; n < 30; n++ {
			p := inst(t, func(i int) string { return ev.Pick(rng, pool) })
			instances = append(instances, p)
			for _, m := range methodsFor(t, false) {
				add(c05Req{Method: m, Target: p, Class: "instance-random"})
			}
		}
	}
	// near misses
	for n, p := range instances {
		if n%2 == 1 && len(instances) > 40 {
			continue
		}
		muts := []string{p + "/", "/" + p, strings.Replace(p, "/", "//", 1), p + "x"}
		if len(p) > 1 {
			muts = append(muts, p[:len(p)-1], p[1:])
			k := 1 + rng.Intn(len(p)-1)
			muts = append(muts, p[:k]+p[k+1:], p[:k]+"x"+p[k:], p[:k]+"/"+p[k:])
		}
		for _, m := range muts {
			if m == "" || m[0] != '/' {
				continue
			}
			add(c05Req{Method: "GET", Target: m, Class: "near-miss"})
			add(c05Req{Method: "POST", Target: m, Class: "near-miss"})
		}
	}
	// escaped variants of instances (C12 routing part): hex case flipped, unreserved needlessly escaped, hand-built URL
	for n, p := range instances {
		if n%3 != 0 {
			continue
		}
		var b strings.Builder
		changed := false
		for i := 0; i < len(p); i++ {
			c := p[i]
			if c == '%' && i+2 < len(p) {
				h := p[i+1 : i+3]
				if rng.Bool() {
					h = strings.ToLower(h)
				} else {
					h = strings.ToUpper(h)
				}
				b.WriteString("%" + h)
				i += 2
				changed = true
				continue
			}
			if refUnreserved(c) && rng.Intn(3) == 0 {
				if rng.Bool() {
					fmt.Fprintf(&b, "%%%02x", c)
				} else {
					fmt.Fprintf(&b, "%%%02X", c)
				}
				changed = true
				continue
			}
			b.WriteByte(c)
		}
		if changed {
			esc := b.String()
			add(c05Req{Method: "GET", Target: esc, Class: "re-escaped"})
			if un, err := url.PathUnescape(esc); err == nil {
				add(c05Req{Method: "GET", Path: un, Raw: esc, Hand: true, Class: "re-escaped-hand-built"})
			}
		}
	}
	// malformed RawPath, hand built (must not panic; routed on Path)
	for _, raw := range []string{"/%", "/a%", "/%4", "/%zz", "/%41%", "/a/%2f%", "/%61%zz"} {
		add(c05Req{Method: "GET", Path: "/a", Raw: raw, Hand: true, Class: "malformed-rawpath"})
		if len(instances) > 0 {
			add(c05Req{Method: "GET", Path: instances[0], Raw: raw, Hand: true, Class: "malformed-rawpath"})
		}
	}
	// exhaustive short paths over the set's own alphabet
	var ab []byte
	for c := range alpha {
		ab = append(ab, c)
	}
	sort.Slice(ab, func(i, j int) bool { return ab[i] < ab[j] })
	if len(ab) > 7 {
		ab = ab[:7]
	}
	buf := make([]byte, maxLen)
	var rec func(pos, l int)
	rec = func(pos, l int) {
		if pos == l {
			p := "/" + string(buf[:l])
			add(c05Req{Method: "GET", Target: p, Class: "exhaustive-short"})
			return
		}
		for _, c := range ab {
			buf[pos] = c
			rec(pos+1, l)
		}
	}
	for l := 0; l < maxLen; l++ {
		rec(0, l)
	}
	return out
}
