package servlab

import (
	"bytes"
	"context"
	"encoding/json"
	"fmt"
	"io"
	"math"
	"net/http"
	"reflect"
	"regexp"
	"runtime"
	"sort"
	"strconv"
	"strings"
	"sync"

	"github.com/ogen-go/ogen/middleware"
	"github.com/ogen-go/ogen/ogenerrors"

	"verifharness/internal/ev"
	"verifharness/internal/jsonv"
)

type C01Pkg struct {
	Key       string              `json:"key"`
	Origin    string              `json:"origin"`
	Values    int                 `json:"values"`              // per operation and mode
	Responses map[string][]string `json:"responses,omitempty"` // "METHOD /path" -> response keys ("200","4XX","default")
	// Defaults: "METHOD /path" -> parameter/field path -> expected default (rendered by Descr); optional
	Config string `json:"config,omitempty"`
	// Defaults: "METHOD /path" -> field path (".P") -> Descr of the value an unset member must arrive as
	Defaults map[string]map[string]string `json:"defaults,omitempty"`
	Combos   map[string]string            `json:"combos,omitempty"` // "METHOD /path" -> description (matrix specs)
	// UnusedPathParams: "METHOD /path" -> path parameters the document declares but the template does not contain
	UnusedPathParams map[string][]string `json:"unused_path_params,omitempty"`
	// ResponseHeaders: "METHOD /path" -> response key -> header names declared for that response
	ResponseHeaders map[string]map[string][]string `json:"response_headers,omitempty"`
}

type C01Data struct {
	Pkgs []C01Pkg `json:"pkgs"`
	Only string   `json:"only,omitempty"` // replay: origin|operation
}

func init() { drivers["c01"] = runC01 }

var tCtx = reflect.TypeOf((*context.Context)(nil)).Elem()
var tHTTPReq = reflect.TypeOf((*http.Request)(nil))

type c01Call struct {
	op     string
	req    any // snapshot
	params any // snapshot
	hasReq bool
	rawReq reflect.Value // kept only when the value holds no stream
}

type c01MW struct {
	op     string
	body   any
	params []string // sorted descriptions of parameter values
	skip   bool
}

type c01Disp struct {
	pkg  *Package
	mu   sync.Mutex
	call []c01Call
	mw   []c01MW
	// scripted response for the next handler call
	next   reflect.Value
	nextOp string // the operation the scripted response belongs to
	noBody bool
	rng    *ev.Rand
	srcT   map[string]reflect.Type // SecuritySource method -> credential type
	errs   []string
}

func (d *c01Disp) errorHandler(ctx context.Context, w http.ResponseWriter, r *http.Request, err error) {
	d.mu.Lock()
	d.errs = append(d.errs, fmt.Sprintf("%T: %v", err, err))
	d.mu.Unlock()
	ogenerrors.DefaultErrorHandler(ctx, w, r, err)
}

func (d *c01Disp) serverErr() string {
	d.mu.Lock()
	defer d.mu.Unlock()
	return strings.Join(d.errs, " | ")
}

func hasReader(t reflect.Type, depth int) bool {
	if depth > 6 {
		return false
	}
	switch t.Kind() {
	case reflect.Interface:
		return t == tReader
	case reflect.Pointer, reflect.Slice, reflect.Array:
		return hasReader(t.Elem(), depth+1)
	case reflect.Struct:
		if t == tMPFile {
			return true
		}
		for i := 0; i < t.NumField(); i++ {
			if hasReader(t.Field(i).Type, depth+1) {
				return true
			}
		}
	}
	return false
}

func (d *c01Disp) Call(iface, method string, args []any) []any {
	switch iface {
	case "Handler":
		if method == "NewError" {
			return nil
		}
		c := c01Call{op: method}
		for _, a := range args[1:] {
			if a == nil {
				continue
			}
			t := reflect.TypeOf(a)
			if strings.HasSuffix(t.Name(), "Params") && t.Kind() == reflect.Struct {
				c.params = Snap(a)
			} else {
				c.req = Snap(a) // reads streaming bodies while they are valid
				c.hasReq = true
				if !hasReader(t, 0) {
					c.rawReq = reflect.ValueOf(a)
				}
			}
		}
		d.mu.Lock()
		d.call = append(d.call, c)
		next, noBody, nextOp := d.next, d.noBody, d.nextOp
		d.mu.Unlock()
		if nextOp != "" && method != nextOp {
			// another operation's handler ran (recorded above and judged by the caller): its response type is not
			// the scripted one
			return []any{nil, errWrongOperation}
		}
		if noBody || !next.IsValid() {
			return []any{nil, nil}
		}
		return []any{next.Interface(), nil}
	case "SecurityHandler":
		return []any{args[0], nil}
	case "SecuritySource":
		t := d.srcT[method]
		if t == nil {
			return []any{nil} // custom security: (req) error
		}
		b := &Builder{Pkg: d.pkg, Rng: ev.NewRand(7, "cred", method), Tame: true}
		v := b.Value(t, 0)
		return []any{v.Interface(), nil}
	}
	return nil
}

func (d *c01Disp) middleware(req middleware.Request, next middleware.Next) (middleware.Response, error) {
	m := c01MW{op: req.OperationName}
	if req.Body != nil {
		if hasReader(reflect.TypeOf(req.Body), 0) {
			m.skip = true // reading the stream here would take it away from the handler
		} else {
			m.body = Snap(req.Body)
		}
	}
	for _, v := range req.Params {
		m.params = append(m.params, Descr(Snap(v)))
	}
	sort.Strings(m.params)
	d.mu.Lock()
	d.mw = append(d.mw, m)
	d.mu.Unlock()
	return next(req)
}

func (d *c01Disp) reset() {
	d.mu.Lock()
	d.call = nil
	d.mw = nil
	d.errs = nil
	d.mu.Unlock()
}

var patRe = regexp.MustCompile(`([1-5])XX`)

// setStatusCodes walks a built response value and gives every StatusCode field a code the
// spec allows for that variant. ok=false when no admissible code is known.
func setStatusCodes(v reflect.Value, keys []string, rng *ev.Rand, hasBody func(reflect.Type) bool) bool {
	ok := true
	var walk func(v reflect.Value, depth int)
	walk = func(v reflect.Value, depth int) {
		if depth > 8 || !v.IsValid() {
			return
		}
		switch v.Kind() {
		case reflect.Interface, reflect.Pointer:
			if !v.IsNil() {
				walk(v.Elem(), depth+1)
			}
		case reflect.Struct:
			t := v.Type()
			if f, has := t.FieldByName("StatusCode"); has && f.Type.Kind() == reflect.Int && v.CanSet() {
				code := pickCode(t.Name(), keys, rng, hasBody(t))
				if code == 0 {
					ok = false
				}
				v.FieldByName("StatusCode").SetInt(int64(code))
			}
			for i := 0; i < t.NumField(); i++ {
				if t.Field(i).IsExported() && t.Field(i).Name == "Response" {
					walk(v.Field(i), depth+1)
				}
			}
		}
	}
	walk(v, 0)
	return ok
}

func pickCode(typeName string, keys []string, rng *ev.Rand, body bool) int {
	if keys == nil {
		return 0
	}
	explicit := map[int]bool{}
	patterns := map[int]bool{}
	for _, k := range keys {
		var c int
		if _, err := fmt.Sscanf(k, "%d", &c); err == nil && len(k) == 3 && k[1] != 'X' {
			explicit[c] = true
		} else if m := patRe.FindStringSubmatch(strings.ToUpper(k)); m != nil {
			patterns[int(m[1][0]-'0')] = true
		}
	}
	admissible := func(c int) bool {
		if explicit[c] || c < 200 || (body && (c == 204 || c == 304)) || c == 205 {
			return false
		}
		return true
	}
	if m := patRe.FindStringSubmatch(typeName); m != nil {
		h := int(m[1][0] - '0')
		if h == 1 {
			return 0
		}
		for try := 0; try < 50; try++ {
			c := h*100 + rng.Intn(100)
			if admissible(c) {
				return c
			}
		}
		return 0
	}
	// default response: a code matched by no explicit code or pattern
	for try := 0; try < 100; try++ {
		c := 200 + rng.Intn(400)
		if admissible(c) && !patterns[c/100] {
			return c
		}
	}
	return 0
}

func runC01(r *ev.Run, data json.RawMessage) error {
	var d C01Data
	if err := json.Unmarshal(data, &d); err != nil {
		return err
	}
	var firstErr error
	var emu sync.Mutex
	ev.Parallel(len(d.Pkgs), runtime.NumCPU(), func(i int) {
		defer func() {
			if p := recover(); p != nil {
				emu.Lock()
				if firstErr == nil {
					buf := make([]byte, 4096)
					n := runtime.Stack(buf, false)
					firstErr = fmt.Errorf("%s: harness panic: %v\n%s", d.Pkgs[i].Origin, p, buf[:n])
				}
				emu.Unlock()
			}
		}()
		if err := c01Pkg(r, &d, &d.Pkgs[i]); err != nil {
			emu.Lock()
			if firstErr == nil {
				firstErr = err
			}
			emu.Unlock()
		}
	})
	return firstErr
}

func c01Pkg(r *ev.Run, d *C01Data, pc *C01Pkg) error {
	pkg := Lookup(pc.Key)
	if pkg == nil {
		return fmt.Errorf("package %s not linked", pc.Key)
	}
	ht := pkg.Type("Handler")
	if ht == nil || ht.Kind() != reflect.Interface {
		r.Count("packages_without_handler", 1)
		return nil
	}
	disp := &c01Disp{pkg: pkg, srcT: map[string]reflect.Type{}}
	if st := pkg.Type("SecuritySource"); st != nil && st.Kind() == reflect.Interface {
		for i := 0; i < st.NumMethod(); i++ {
			m := st.Method(i)
			if m.Type.NumOut() == 2 {
				disp.srcT[m.Name] = m.Type.Out(0)
			}
		}
	}
	srv, err := pkg.NewServer(disp, ServerConfig{Middleware: []middleware.Middleware{disp.middleware}, ErrorHandler: disp.errorHandler})
	if err != nil {
		return fmt.Errorf("%s: NewServer: %v", pc.Origin, err)
	}
	tr := &WireTransport{H: srv, Keep: true}
	cl, err := pkg.NewClient(disp, ClientConfig{URL: "http://verif.local", HTTP: tr})
	if err != nil {
		return fmt.Errorf("%s: NewClient: %v", pc.Origin, err)
	}
	clv := reflect.ValueOf(cl)
	r.Count("packages", 1)

	bigBodies := 0
	for _, op := range pkg.Ops {
		if op.Iface != "Handler" {
			continue
		}
		if d.Only != "" && d.Only != pc.Origin+"|"+op.Name {
			continue
		}
		hm, ok := ht.MethodByName(op.Name)
		if !ok {
			continue
		}
		cm := clv.MethodByName(op.Name)
		if !cm.IsValid() {
			return fmt.Errorf("%s: client has no method %s", pc.Origin, op.Name)
		}
		// argument layout from the handler signature: ctx, [req], [params]
		var reqT, parT, resT reflect.Type
		for i := 1; i < hm.Type.NumIn(); i++ {
			t := hm.Type.In(i)
			if strings.HasSuffix(t.Name(), "Params") && t.Kind() == reflect.Struct {
				parT = t
			} else {
				reqT = t
			}
		}
		if hm.Type.NumOut() == 2 {
			resT = hm.Type.Out(0)
		}
		keys := pc.Responses[op.Method+" "+op.Path]
		rng := r.Rand("c01", pc.Origin, op.Name)
		disp.rng = rng
		delivered, refused := 0, 0
		for k := 0; k < 2*pc.Values; k++ {
			hostile := k%2 == 1
			b := &Builder{Pkg: pkg, Rng: rng, Hostile: hostile, MaxDepth: 3 + k%3}
			if k == 2 && reqT != nil && bigBodies < 6 {
				// one core value with an 11 MiB string member, for the first body operations of every package: a body
				// reader with a size limit must refuse, not cut
				b.Big = 11<<20 + 7
				bigBodies++
				r.Count("large_body_values", 1)
			}
			var reqV, parV reflect.Value
			okBuild := true
			if reqT != nil {
				reqV, ok = b.Validated(reqT, 10)
				okBuild = okBuild && ok
			}
			if parT != nil {
				b.NonEmpty = true
				parV, ok = b.Validated(parT, 10)
				b.NonEmpty = false
				okBuild = okBuild && ok
			}
			if !okBuild {
				r.Count("values_rejected_by_own_validate", 1)
				continue
			}
			// response the handler will give
			var retV reflect.Value
			var retSnap any
			if resT != nil {
				rb := &Builder{Pkg: pkg, Rng: rng, Hostile: hostile, MaxDepth: 3}
				retV, ok = rb.Validated(resT, 10)
				if !ok {
					r.Count("responses_rejected_by_own_validate", 1)
					continue
				}
				// make every part settable
				holder := reflect.New(resT).Elem()
				holder.Set(retV)
				if holder.Kind() == reflect.Interface && !holder.IsNil() && holder.Elem().Kind() != reflect.Pointer {
					// value-typed implementer: copy into an addressable value
					cp := reflect.New(holder.Elem().Type())
					cp.Elem().Set(holder.Elem())
					if !setStatusCodes(cp.Elem(), keys, rng, func(t reflect.Type) bool { return variantHasBody(t) }) {
						r.Count("responses_skipped_no_admissible_status_code", 1)
						continue
					}
					holder.Set(cp.Elem())
				} else if !setStatusCodes(holder, keys, rng, func(t reflect.Type) bool { return variantHasBody(t) }) {
					r.Count("responses_skipped_no_admissible_status_code", 1)
					continue
				}
				retV = holder
				if hasContentTypeField(retV) || (reqV.IsValid() && hasContentTypeField(reqV)) {
					r.Count("wildcard_media_type_values_skipped", 1)
					continue
				}
				retSnap = SnapValue(retV)
			} else if reqV.IsValid() && hasContentTypeField(reqV) {
				r.Count("wildcard_media_type_values_skipped", 1)
				continue
			}
			var sentReq, sentPar any
			if reqV.IsValid() {
				sentReq = SnapValue(reqV)
			}
			if parV.IsValid() {
				sentPar = SnapValue(parV)
			}
			disp.reset()
			disp.mu.Lock()
			disp.next = retV
			disp.nextOp = op.Name
			disp.noBody = resT == nil
			disp.mu.Unlock()
			in := []reflect.Value{reflect.ValueOf(context.Background())}
			for i := 1; i < hm.Type.NumIn(); i++ {
				if hm.Type.In(i) == parT {
					in = append(in, parV)
				} else {
					in = append(in, reqV)
				}
			}
			var out []reflect.Value
			var callPanic string
			func() {
				defer func() {
					if p := recover(); p != nil {
						callPanic = fmt.Sprint(p)
					}
				}()
				out = cm.Call(in)
			}()
			r.Eval(1)
			mode := "core"
			if hostile {
				mode = "hostile"
			}
			r.Distinct(pc.Origin + "|" + op.Name + "|" + mode + "|" + Descr(sentReq) + "|" + Descr(sentPar) + "|" + Descr(retSnap))
			var last *WireRecord
			wit := func(extra map[string]any) map[string]any {
				m := map[string]any{"origin": pc.Origin, "operation": op.Name, "route": op.Method + " " + op.Path, "combination": pc.Combos[op.Method+" "+op.Path], "mode": mode, "request": Descr(sentReq), "params": Descr(sentPar), "handler_returns": Descr(retSnap)}
				if last != nil {
					m["wire_request"] = clip(last.RequestBytes)
					m["wire_status"] = last.Status
					m["wire_response_body"] = clip(last.Body)
				}
				if se := disp.serverErr(); se != "" {
					m["server_error"] = se
				}
				for k, v := range extra {
					m[k] = v
				}
				return m
			}
			viol := func(sig, msg string, extra map[string]any) {
				r.Violate("exchange/"+sig, fmt.Sprintf("%s %s (%s): %s", pc.Origin, op.Name, mode, msg), wit(extra))
			}
			if callPanic != "" {
				viol("client-panic", "client call panicked: "+callPanic, nil)
				continue
			}
			var cerr error
			if e := out[len(out)-1].Interface(); e != nil {
				cerr = e.(error)
			}
			disp.mu.Lock()
			calls := append([]c01Call(nil), disp.call...)
			mws := append([]c01MW(nil), disp.mw...)
			disp.mu.Unlock()
			status := 0
			last = tr.Last
			tr.Last = nil
			if last != nil {
				status = last.Status
				if last.ServePanic != "" {
					viol("server-panic", "ServeHTTP panicked: "+last.ServePanic, nil)
					continue
				}
			}
			if len(calls) > 1 {
				viol("handler-called-twice", "handler invoked more than once", nil)
				continue
			}
			if len(calls) == 0 {
				// refused
				refused++
				r.Count("refused_"+mode, 1)
				if cerr == nil && status < 400 {
					viol("dropped", fmt.Sprintf("handler was not invoked but the client reports success (status %d)", status), nil)
					continue
				}
				if cerr == nil {
					// the 4xx answer was decoded as the operation's default/pattern variant
					cerr = fmt.Errorf("status %d: %s", status, disp.serverErr())
				}
				if !hostile {
					se := disp.serverErr()
					if (status == 404 || (status == 400 && strings.Contains(se, "path:"))) && tailParam.MatchString(op.Path) {
						// a parameter directly followed by a literal in the template: a value containing that literal's
						// first byte cannot be told apart by the router (it is the style's delimiter here)
						r.Count("core_values_containing_template_literal_refused", 1)
						continue
					}
					if strings.Contains(se, "wrong ip version") {
						r.Count("ip_version_not_revealed_by_go_type", 1)
					} else if validationRefusal(se) || validationRefusal(cerr.Error()) {
						// the value violates a schema constraint of a parameter or body (parameter structs have no
						// Validate() the builder could consult): a legitimate refusal, not judged here (C03 owns it)
						r.Count("core_values_refused_by_schema_validation", 1)
					} else {
						viol("core-value-refused:"+refusalClass(cerr), fmt.Sprintf("a core-domain value was refused: %v (server: %s)", cerr, se), map[string]any{"client_error": cerr.Error()})
					}
				}
				continue
			}
			c := calls[0]
			if c.op != op.Name {
				if hostile && last != nil && emptyPathSegment(last.RequestBytes, op.Path) {
					// an empty path parameter value: the client writes a path with an empty segment, which is the path
					// of a sibling operation (/dashboard/{id} with id "" is /dashboard/); neither side reports an error
					viol("empty-path-parameter-reaches-sibling-operation", "an empty path parameter value was sent without error and handler "+c.op+" ran", nil)
					continue
				}
				viol("wrong-operation", "handler "+c.op+" ran", nil)
				continue
			}
			// request side
			var defaults []string
			formBody := last != nil && (bytes.Contains(last.RequestBytes, []byte("Content-Type: application/x-www-form-urlencoded")) || bytes.Contains(last.RequestBytes, []byte("Content-Type: multipart/form-data")))
			if dd := Diff(sentReq, c.req, &DiffOptions{AllowDefaults: true, Defaults: &defaults, SliceLenient: formBody, IgnoreFields: map[string]bool{"Size": true, "Header": true}}); dd != "" {
				switch {
				case sameJSON(reqV, c.rawReq):
					r.Count("go_representation_differs_same_json:"+diffClass(dd), 1)
				case (diffClass(dd) == "float" && floatUlp(dd)) || sameJSONUpToUlp(reqV, c.rawReq):
					viol("float64-decode-off-by-ulp", "handler received a neighbouring float64: "+dd, map[string]any{"received": Descr(c.req), "difference": dd})
					continue
				case formBody && strings.Contains(dd, "sent <null>, got set("):
					// a form field cannot spell null: the client leaves the field out, the server applies the schema default
					viol("null-form-field-becomes-default", "a null member of a form body is dropped by the client and arrives as the schema default: "+dd, map[string]any{"received": Descr(c.req), "difference": dd})
					continue
				default:
					viol("request-changed:"+diffClass(dd), "handler received a different request body: "+dd, map[string]any{"received": Descr(c.req), "difference": dd})
					continue
				}
			}
			if dd := Diff(sentPar, c.params, &DiffOptions{AllowDefaults: true, Defaults: &defaults, SliceLenient: true}); dd != "" {
				if tailParam.MatchString(op.Path) && strings.Contains(dd, "sent \"") {
					viol("path-param-resplit-at-template-literal", "a path parameter value containing the literal that follows it in the template arrived re-split: "+dd, map[string]any{"received": Descr(c.params), "difference": dd})
					continue
				}
				if a, b, ok := sentGot(dd); ok && a != b && (b == strings.Trim(a, " \t") || b == strings.TrimRight(a, " \t") || b == strings.TrimLeft(a, " \t")) && last != nil && headerCarries(last.RequestBytes, a) {
					// (a member of an exploded/non-exploded object or array loses only the blanks at the end of the field value)
					viol("header-value-surrounding-whitespace-trimmed", "a header parameter value with leading/trailing blanks arrived trimmed (no error on either side): "+dd, map[string]any{"received": Descr(c.params), "difference": dd})
					continue
				}
				if diffClass(dd) == "float" && floatUlp(dd) {
					// a JSON-encoded (content) parameter: same decoder as for bodies
					viol("float64-decode-off-by-ulp", "handler received a neighbouring float64 in a JSON-encoded parameter: "+dd, map[string]any{"received": Descr(c.params), "difference": dd})
					continue
				}
				if f := firstField(dd); f != "" && pathParamOutsideTemplate(pc.UnusedPathParams[op.Method+" "+op.Path], f) {
					// the document declares a path parameter that its path template does not contain (superset.json):
					// there is no place for the value; outside the property's domain
					r.Count("path_parameter_not_in_template_not_judged", 1)
					continue
				}
				if f := firstField(dd); f != "" && last != nil && queryMapLost(sentPar, f, dd) {
					viol("query-map-parameter-not-decodable", "a query parameter holding additional properties (map) was written by the client as key=value pairs and arrives empty or unset: "+dd, map[string]any{"received": Descr(c.params), "difference": dd})
					continue
				}
				viol("params-changed:"+diffClass(dd), "handler received different parameters: "+dd, map[string]any{"received": Descr(c.params), "difference": dd})
				continue
			}
			if len(defaults) > 0 {
				r.Count("members_unset_arrived_as_default", len(defaults))
			}
			if want := pc.Defaults[op.Method+" "+op.Path]; want != nil {
				// the expected default is computed from the spec (side-car), not from generated setDefaults()
				for fpath, w := range want {
					sentUnset := false
					if s, ok := sentPar.(*SStruct); ok {
						if o, ok := s.Fields[strings.TrimPrefix(fpath, ".")].(*SOpt); ok && o.State == "unset" {
							sentUnset = true
						}
					}
					if !sentUnset {
						continue
					}
					got := ""
					for _, d := range defaults {
						if strings.HasPrefix(d, fpath+"=") {
							got = strings.TrimPrefix(d, fpath+"=")
						}
					}
					r.Count("defaults_checked_against_spec", 1)
					if got != w {
						viol("default-not-applied", fmt.Sprintf("unset parameter with schema default: handler received %q, the spec's default is %s (%s)", got, w, pc.Combos[op.Method+" "+op.Path]), map[string]any{"received": Descr(c.params)})
					}
				}
			}
			// middleware saw what the handler saw
			if len(mws) != 1 {
				viol("middleware-calls", fmt.Sprintf("middleware invoked %d times", len(mws)), nil)
			} else {
				m := mws[0]
				if m.op != op.Name {
					viol("middleware-operation", "middleware saw operation "+m.op, nil)
				}
				if !m.skip && c.hasReq {
					if dd := Diff(c.req, m.body, nil); dd != "" {
						viol("middleware-body", "middleware Body differs from the handler's request: "+dd, nil)
					}
				}
				if c.params != nil {
					var hp []string
					if s, ok := c.params.(*SStruct); ok {
						for _, f := range s.Order {
							hp = append(hp, Descr(s.Fields[f]))
						}
					}
					sort.Strings(hp)
					if strings.Join(hp, "\x00") != strings.Join(m.params, "\x00") {
						viol("middleware-params", fmt.Sprintf("middleware Params %v differ from the handler's %v", m.params, hp), nil)
					}
				}
			}
			// response side
			if cerr != nil {
				if strings.Contains(cerr.Error(), "wrong ip version") {
					r.Count("ip_version_not_revealed_by_go_type", 1)
				} else if strings.Contains(cerr.Error(), "unable to detect sum type variant") {
					// corpus oneOf without discriminator whose distinguishing members are all unset (see C04)
					r.Count("ambiguous_sum_encoding_not_judged", 1)
				} else if strings.Contains(cerr.Error(), "object properties number") {
					viol("property-count-enforced-by-decode-not-by-validate", fmt.Sprintf("the response passed its own Validate() but the client's decoder rejects it: %v", cerr), map[string]any{"client_error": cerr.Error()})
				} else if !hostile && strings.Contains(cerr.Error(), "decode response: validate:") {
					// the generated client validates what it decodes: the value the handler returned violates a schema
					// constraint the Go type does not reveal (a bare string with format email)
					r.Count("core_responses_refused_by_client_validation", 1)
				} else if se := disp.serverErr(); !hostile && status == 500 && validationRefusal(se) {
					// response validation is generated in and the value the handler returned violates a schema constraint
					// the Go type does not reveal (a bare string with format email): a legitimate refusal (C03/C04 own it)
					r.Count("core_responses_refused_by_response_validation", 1)
				} else if !hostile {
					viol("core-response-not-delivered:"+refusalClass(cerr), fmt.Sprintf("handler ran and answered, the caller got an error: %v", cerr), map[string]any{"client_error": cerr.Error()})
				} else {
					r.Count("hostile_response_refused", 1)
				}
				continue
			}
			if resT != nil {
				got := SnapValue(out[0])
				if dd := Diff(retSnap, got, &DiffOptions{AllowDefaults: true, Defaults: &defaults}); dd != "" {
					switch {
					case !hasReader(resT, 0) && sameJSON(retV, out[0]):
						r.Count("go_representation_differs_same_json:"+diffClass(dd), 1)
					case (diffClass(dd) == "float" && floatUlp(dd)) || (!hasReader(resT, 0) && sameJSONUpToUlp(retV, out[0])):
						viol("float64-decode-off-by-ulp", "caller received a neighbouring float64: "+dd, map[string]any{"caller_received": Descr(got), "difference": dd})
						continue
					case undeclaredHeaderField(pc.ResponseHeaders[op.Method+" "+op.Path], status, retSnap, dd):
						// the response wrapper with header fields is shared by several responses of the operation whose bodies
						// refer to one schema (C07 known finding: wrapper keyed by the schema reference); for a response that
						// declares no such header the encoder does not write it
						viol("header-of-shared-response-wrapper-not-written", "a header field of a response wrapper that the document does not declare for this response is dropped: "+dd, map[string]any{"caller_received": Descr(got), "difference": dd})
						continue
					default:
						viol("response-changed:"+diffClass(dd), "caller received a different response: "+dd, map[string]any{"caller_received": Descr(got), "difference": dd})
						continue
					}
				}
			}
			_ = status
			delivered++
			r.Count("delivered_"+mode, 1)
			if delivered == 1 && len(r.SamplesLen()) < 12 {
				r.Sample(wit(nil))
			}
		}
		if delivered == 0 {
			r.Count("operations_never_delivered", 1)
		} else {
			r.Count("operations_delivered", 1)
		}
	}
	return nil
}

func variantHasBody(t reflect.Type) bool {
	f, ok := t.FieldByName("Response")
	if !ok {
		return true
	}
	rt := f.Type
	if rt.Kind() == reflect.Struct && rt.NumField() == 0 {
		return false
	}
	return true
}

func hasContentTypeField(v reflect.Value) bool {
	found := false
	var walk func(v reflect.Value, depth int)
	walk = func(v reflect.Value, depth int) {
		if depth > 6 || !v.IsValid() || found {
			return
		}
		switch v.Kind() {
		case reflect.Interface, reflect.Pointer:
			if !v.IsNil() {
				walk(v.Elem(), depth+1)
			}
		case reflect.Struct:
			if f, ok := v.Type().FieldByName("ContentType"); ok && f.Type.Kind() == reflect.String {
				found = true
				return
			}
			for i := 0; i < v.NumField(); i++ {
				if v.Type().Field(i).IsExported() {
					walk(v.Field(i), depth+1)
				}
			}
		}
	}
	walk(v, 0)
	return found
}

func refusalClass(err error) string {
	s := err.Error()
	for _, k := range []string{"encode query", "encode header", "encode path", "encode cookie", "encode request", "decode response", "do request", "validate", "security"} {
		if strings.Contains(s, k) {
			return strings.ReplaceAll(k, " ", "-")
		}
	}
	var _ = io.EOF
	return "other"
}

// validationRefusal recognises refusals caused by a schema constraint (validate.* errors).
func validationRefusal(s string) bool {
	for _, k := range []string{"validate:", "invalid:", "less than", "greater than", "no regex match", "len ", "invalid value", "is not multiple of", "duplicate", "properties number", "items number", "value is required", "unexpected value", "string: "} {
		if strings.Contains(s, k) {
			return true
		}
	}
	return false
}

var tailParam = regexp.MustCompile(`\}[^/]`)

var bitsRe = regexp.MustCompile(`bits ([0-9a-f]+)\)`)

// floatUlp: the two floats named in a diff text are within a few units in the last place.
func floatUlp(dd string) bool {
	m := bitsRe.FindAllStringSubmatch(dd, 2)
	if len(m) != 2 {
		return false
	}
	var a, b uint64
	fmt.Sscanf(m[0][1], "%x", &a)
	fmt.Sscanf(m[1][1], "%x", &b)
	d := int64(a - b)
	if d < 0 {
		d = -d
	}
	return d > 0 && d <= 4
}

// sameJSON: both values have the generated JSON codec and the received one's encoding contains
// everything the sent one's encoding has (members added by defaults allowed).
func sameJSON(sent, got reflect.Value) bool {
	deref := func(v reflect.Value) reflect.Value {
		for v.IsValid() && (v.Kind() == reflect.Interface || v.Kind() == reflect.Pointer) {
			if v.IsNil() {
				return reflect.Value{}
			}
			v = v.Elem()
		}
		return v
	}
	a, b := deref(sent), deref(got)
	if !a.IsValid() || !b.IsValid() || a.Type() != b.Type() {
		return false
	}
	enc, _, ok := jsonCodec(a.Type())
	if !ok {
		return false
	}
	ta, p1 := encodeJSON(enc, a)
	tb, p2 := encodeJSON(enc, b)
	if p1 != "" || p2 != "" {
		return false
	}
	ja, e1 := jsonv.Parse(ta)
	jb, e2 := jsonv.Parse(tb)
	if e1 != nil || e2 != nil {
		return false
	}
	w, _, _ := jsonSubset(ja, jb, "")
	return w == ""
}

var sentGotRe = regexp.MustCompile(`sent ("(?:[^"\\]|\\.)*"), got ("(?:[^"\\]|\\.)*")$`)

// sentGot extracts the two strings of a leaf difference.
func sentGot(dd string) (string, string, bool) {
	m := sentGotRe.FindStringSubmatch(dd)
	if m == nil {
		return "", "", false
	}
	a, e1 := strconv.Unquote(m[1])
	b, e2 := strconv.Unquote(m[2])
	return a, b, e1 == nil && e2 == nil
}

// headerCarries: some header line of the wire request ends with the (trimmed) value.
func headerCarries(wire []byte, v string) bool {
	t := strings.Trim(v, " \t")
	head := wire
	if i := bytes.Index(wire, []byte("\r\n\r\n")); i >= 0 {
		head = wire[:i]
	}
	for _, line := range strings.Split(string(head), "\r\n")[1:] {
		if i := strings.IndexByte(line, ':'); i > 0 && strings.Contains(line[i+1:], t) && !strings.HasPrefix(strings.ToLower(line), "cookie:") {
			return true
		}
	}
	return false
}

// firstField: the top-level field a difference "<.Field...>: ..." is about.
func firstField(dd string) string {
	if !strings.HasPrefix(dd, ".") {
		return ""
	}
	name := dd[1:]
	if i := strings.IndexAny(name, ":.[ "); i >= 0 {
		name = name[:i]
	}
	return name
}

// pathParamOutsideTemplate: field f of the parameter struct is one of the path parameters the document declares
// without a place in the path template (names compared without case and separators).
func pathParamOutsideTemplate(unused []string, f string) bool {
	norm := func(s string) string {
		return strings.ToLower(strings.NewReplacer("_", "", "-", "", ".", "", " ", "").Replace(s))
	}
	for _, n := range unused {
		if norm(n) == norm(f) {
			return true
		}
	}
	return false
}

// emptyPathSegment: the request line has an empty path segment ("//" or a trailing "/") where the template has a parameter.
func emptyPathSegment(req []byte, template string) bool {
	line := string(req)
	if i := strings.IndexByte(line, '\n'); i >= 0 {
		line = line[:i]
	}
	parts := strings.Fields(line)
	if len(parts) < 2 {
		return false
	}
	p := parts[1]
	if i := strings.IndexByte(p, '?'); i >= 0 {
		p = p[:i]
	}
	segs, tsegs := strings.Split(p, "/"), strings.Split(template, "/")
	if len(segs) != len(tsegs) {
		return strings.Contains(p, "//") || (strings.HasSuffix(p, "/") && !strings.HasSuffix(template, "/"))
	}
	for i := range segs {
		if segs[i] == "" && strings.Contains(tsegs[i], "{") {
			return true
		}
	}
	return false
}

// queryMapLost: the field holds (or is an optional holding) a struct with an AdditionalProps map, or is a map,
// and the difference is about lost entries / lost presence.
func queryMapLost(sentPar any, f, dd string) bool {
	if !(strings.Contains(dd, "AdditionalProps") || strings.Contains(dd, "entries map{")) {
		return false
	}
	return strings.Contains(dd, "got 0 entries") || strings.Contains(dd, "got <unset>")
}

var errWrongOperation = fmt.Errorf("verif: the handler of another operation was invoked")

// sameJSONUpToUlp: both values encode (with the type's own codec) to JSON texts that differ only in numbers
// that are neighbouring float64 values (at least one such difference).
func sameJSONUpToUlp(sent, got reflect.Value) bool {
	deref := func(v reflect.Value) reflect.Value {
		for v.IsValid() && (v.Kind() == reflect.Interface || v.Kind() == reflect.Pointer) {
			if v.IsNil() {
				return reflect.Value{}
			}
			v = v.Elem()
		}
		return v
	}
	a, b := deref(sent), deref(got)
	if !a.IsValid() || !b.IsValid() || a.Type() != b.Type() {
		return false
	}
	enc, _, ok := jsonCodec(a.Type())
	if !ok {
		return false
	}
	ta, p1 := encodeJSON(enc, a)
	tb, p2 := encodeJSON(enc, b)
	if p1 != "" || p2 != "" {
		return false
	}
	ja, e1 := jsonv.Parse(ta)
	jb, e2 := jsonv.Parse(tb)
	if e1 != nil || e2 != nil {
		return false
	}
	ulps := 0
	var walk func(x, y *jsonv.Value) bool
	walk = func(x, y *jsonv.Value) bool {
		if x.Kind != y.Kind {
			return false
		}
		switch x.Kind {
		case jsonv.Number:
			if x.Num.Text == y.Num.Text {
				return true
			}
			fx, e1 := strconv.ParseFloat(x.Num.Text, 64)
			fy, e2 := strconv.ParseFloat(y.Num.Text, 64)
			if e1 != nil || e2 != nil {
				return false
			}
			d := int64(math.Float64bits(fx) - math.Float64bits(fy))
			if d < 0 {
				d = -d
			}
			if d == 0 {
				return true
			}
			if d <= 4 {
				ulps++
				return true
			}
			return false
		case jsonv.Object:
			if len(x.Members) != len(y.Members) {
				return false
			}
			for _, m := range x.Members {
				o := y.Get(m.Name)
				if o == nil || !walk(m.Value, o) {
					return false
				}
			}
			return true
		case jsonv.Array:
			if len(x.Elems) != len(y.Elems) {
				return false
			}
			for i := range x.Elems {
				if !walk(x.Elems[i], y.Elems[i]) {
					return false
				}
			}
			return true
		default:
			return jsonv.Equal(x, y)
		}
	}
	return walk(ja, jb) && ulps > 0
}

// undeclaredHeaderField: the returned value is a ...Headers wrapper, the difference is "<.Field>: sent set(..), got
// <unset>", and the response the status selects declares no header of that name.
func undeclaredHeaderField(byCode map[string][]string, status int, ret any, dd string) bool {
	st, ok := ret.(*SStruct)
	if !ok || st == nil || !strings.Contains(st.Type, "Headers") || !strings.Contains(dd, "got <unset>") || byCode == nil {
		return false
	}
	f := firstField(dd)
	if f == "" {
		return false
	}
	norm := func(s string) string {
		return strings.ToLower(strings.NewReplacer("_", "", "-", "", ".", "", " ", "").Replace(s))
	}
	var names []string
	found := false
	for _, key := range []string{strconv.Itoa(status), fmt.Sprintf("%dXX", status/100), "default"} {
		if n, ok := byCode[key]; ok {
			names, found = n, true
			break
		}
	}
	if !found {
		return false
	}
	for _, n := range names {
		if norm(n) == norm(f) {
			return false
		}
	}
	return true
}
