package servlab

import (
	"bytes"
	"encoding/json"
	"fmt"
	"math"
	"reflect"
	"regexp"
	"runtime"
	"strconv"
	"strings"
	"sync"
	"verifharness/internal/schemaref"

	"github.com/go-faster/jx"

	"verifharness/internal/ev"
	"verifharness/internal/jsonv"
)

type C04Pkg struct {
	Key    string `json:"key"`
	Origin string `json:"origin"`
	Values int    `json:"values"`
	// conformance of corpus types: Go type name -> component schema name, and the document's components.schemas
	TypeSchemas map[string]string `json:"type_schemas,omitempty"`
	Components  string            `json:"components,omitempty"`
}

type C04Data struct {
	Pkgs []C04Pkg `json:"pkgs"`
	Only string   `json:"only,omitempty"` // replay: key|TypeName
}

func init() { drivers["c04"] = runC04 }

var patternMapName = regexp.MustCompile(`Pattern\d+(Props)?`)

var tEnc = reflect.TypeOf((*jx.Encoder)(nil))
var tDec = reflect.TypeOf((*jx.Decoder)(nil))

// jsonCodec returns Encode/Decode of *T when T has the generated JSON codec.
func jsonCodec(t reflect.Type) (enc, dec reflect.Method, ok bool) {
	pt := reflect.PointerTo(t)
	e, ok1 := pt.MethodByName("Encode")
	d, ok2 := pt.MethodByName("Decode")
	if !ok1 || !ok2 {
		return
	}
	if e.Type.NumIn() != 2 || e.Type.In(1) != tEnc || e.Type.NumOut() != 0 {
		return
	}
	if d.Type.NumIn() != 2 || d.Type.In(1) != tDec || d.Type.NumOut() != 1 {
		return
	}
	return e, d, true
}

func encodeJSON(enc reflect.Method, v reflect.Value) (out []byte, panicked string) {
	defer func() {
		if p := recover(); p != nil {
			panicked = fmt.Sprint(p)
		}
	}()
	e := &jx.Encoder{}
	p := reflect.New(v.Type())
	p.Elem().Set(v)
	enc.Func.Call([]reflect.Value{p, reflect.ValueOf(e)})
	return append([]byte(nil), e.Bytes()...), ""
}

func decodeJSON(dec reflect.Method, t reflect.Type, b []byte) (v reflect.Value, err error, panicked string) {
	defer func() {
		if p := recover(); p != nil {
			panicked = fmt.Sprint(p)
		}
	}()
	p := reflect.New(t)
	d := jx.DecodeBytes(b)
	out := dec.Func.Call([]reflect.Value{p, reflect.ValueOf(d)})[0]
	if !out.IsNil() {
		return p.Elem(), out.Interface().(error), ""
	}
	// nothing may follow the value
	if d.Next() != jx.Invalid {
		return p.Elem(), fmt.Errorf("trailing data after value"), ""
	}
	return p.Elem(), nil, ""
}

func runC04(r *ev.Run, data json.RawMessage) error {
	var d C04Data
	if err := json.Unmarshal(data, &d); err != nil {
		return err
	}
	type job struct {
		pkg *Package
		cfg C04Pkg
		t   reflect.Type
	}
	var jobs []job
	for _, pc := range d.Pkgs {
		pkg := Lookup(pc.Key)
		if pkg == nil {
			return fmt.Errorf("package %s not linked", pc.Key)
		}
		n := 0
		for _, t := range pkg.Types {
			if t.Kind() == reflect.Interface {
				continue
			}
			if _, _, ok := jsonCodec(t); !ok {
				continue
			}

			if patternMapName.MatchString(t.Name()) {
				// patternProperties maps: keys must match a pattern the Go type does not reveal
				r.Count("pattern_map_types_skipped", 1)
				continue
			}
			if d.Only != "" && d.Only != pc.Key+"|"+t.Name() {
				continue
			}
			jobs = append(jobs, job{pkg, pc, t})
			n++
		}
		r.Count("types_with_json_codec", n)
		r.Count("packages", 1)
	}
	ev.Parallel(len(jobs), runtime.NumCPU(), func(i int) {
		j := jobs[i]
		c04Type(r, j.pkg, j.cfg, j.t, i)
	})
	return nil
}

// c04Schemas caches the parsed components of a package (and copies with one known gap relaxed each).
type c04Schemas struct {
	all, relaxedReq, noCount, both map[string]*jsonv.Value
}

var c04SchemaCache sync.Map // package key -> *c04Schemas

func c04Comps(cfg C04Pkg) *c04Schemas {
	if cfg.Components == "" {
		return nil
	}
	if v, ok := c04SchemaCache.Load(cfg.Key); ok {
		return v.(*c04Schemas)
	}
	cs := &c04Schemas{all: map[string]*jsonv.Value{}, relaxedReq: map[string]*jsonv.Value{}, noCount: map[string]*jsonv.Value{}, both: map[string]*jsonv.Value{}}
	if cv, err := jsonv.Parse([]byte(cfg.Components)); err == nil && cv.Kind == jsonv.Object {
		for _, m := range cv.Members {
			cs.all[m.Name] = m.Value
		}
		for n, v := range cs.all {
			cs.relaxedReq[n] = schemaref.DropUndeclaredRequired(v, cs.all)
			cs.noCount[n] = schemaref.DropPropertyCounts(v)
			cs.both[n] = schemaref.DropPropertyCounts(cs.relaxedReq[n])
		}
	}
	c04SchemaCache.Store(cfg.Key, cs)
	return cs
}

// c04Conforms checks an encoding against the component schema the type was generated from.
func c04Conforms(r *ev.Run, cfg C04Pkg, t reflect.Type, where string, text []byte, pv *jsonv.Value, w func(map[string]any) map[string]any) {
	comp := cfg.TypeSchemas[t.Name()]
	cs := c04Comps(cfg)
	if comp == "" || cs == nil || cs.all[comp] == nil {
		return
	}
	res := schemaref.MapResolver(cs.all)
	root := cs.all[comp]
	// empty objects as array elements where the components have discriminated sums: variants the mapping does not
	// name are encoded as {} (known finding, reported once per type); the rest of the instance is judged without them
	if strings.Contains(cfg.Components, `"discriminator"`) {
		pruned, n := pruneEmptyElems(pv)
		if n > 0 {
			if ok0, why0 := schemaref.Validate(root, pv, res); !ok0 && strings.Contains(why0, "oneOf") {
				r.Violate("json/sum-variant-outside-discriminator-mapping-encodes-empty", fmt.Sprintf("%s: a value that passes Validate() holds %d sum value(s) encoded as {} : %s (%s)", where, n, clip(text), why0), w(map[string]any{"json": clip(text), "component": comp, "reference_reason": why0}))
				pv = pruned
			}
		}
	}
	numericLoose := false
	if why := schemaref.Undecided(root, pv, res); why != "" {
		if !strings.HasPrefix(why, "xcheck:") {
			r.Count("corpus_conformance_outside_deciding_domain:"+strings.SplitN(why, " ", 2)[0], 1)
			return
		}
		// a number whose decimal text is not the exact binary64 value: structure, types and names are still
		// decided; numeric keywords (the generated validator works on the float, the reference on the text) are not
		numericLoose = true
	}
	if hasInexactBigInteger(pv) {
		numericLoose = true // a float64 member printed as a long integer: same reservation
	}
	ok, why := schemaref.Validate(root, pv, res)
	r.Count("corpus_conformance_checked", 1)
	if ok {
		r.Count("corpus_conformance_valid", 1)
		return
	}
	if numericLoose {
		for _, kw := range []string{"multipleOf", "minimum", "maximum", "enum"} {
			if strings.Contains(why, kw) {
				r.Count("corpus_conformance_numeric_keyword_on_inexact_number_not_judged", 1)
				return
			}
		}
	}
	// relaxations: R = required names not declared under properties dropped (known F-C04-3), C = property counts
	// dropped (known F-C04-1), O = every oneOf read as anyOf (overlapping corpus oneOf: not judged)
	relax := func(rq, cnt, one bool) bool {
		m := map[string]*jsonv.Value{}
		for n, v := range cs.all {
			if rq {
				v = cs.relaxedReq[n]
			}
			if cnt {
				v = schemaref.DropPropertyCounts(v)
			}
			if one {
				v = schemaref.OneOfAsAnyOf(v)
			}
			m[n] = v
		}
		ok2, _ := schemaref.Validate(m[comp], pv, schemaref.MapResolver(m))
		return ok2
	}
	wit := w(map[string]any{"json": clip(text), "component": comp, "schema": clip(jsonv.Compact(root)), "reference_reason": why})
	reqMsg := func() {
		r.Violate("json/conformance-required-undeclared-property", fmt.Sprintf("%s: a value that passes Validate() encodes to JSON lacking a required member that is not declared under properties: %s (%s)", where, clip(text), why), wit)
	}
	cntMsg := func() {
		r.Violate("json/property-count-enforced-by-decode-not-by-validate", fmt.Sprintf("%s: a value that passes Validate() encodes to JSON violating a minProperties/maxProperties of the schema: %s (%s)", where, clip(text), why), wit)
	}
	// the node of the instance the reference's reason points at ("/results/0: oneOf: ...")
	at := pv
	if i := strings.Index(why, ": "); i > 0 && strings.HasPrefix(why, "/") {
		for _, tok := range strings.Split(why[1:i], "/") {
			if at == nil {
				break
			}
			switch at.Kind {
			case jsonv.Object:
				at = at.Get(tok)
			case jsonv.Array:
				if n, err := strconv.Atoi(tok); err == nil && n >= 0 && n < len(at.Elems) {
					at = at.Elems[n]
				} else {
					at = nil
				}
			default:
				at = nil
			}
		}
	}
	compsText := cfg.Components
	switch {
	case strings.Contains(why, "oneOf: 0 variants") && at != nil && at.Kind == jsonv.Object && len(at.Members) == 0 && strings.Contains(compsText, `"discriminator"`):
		// a variant of a discriminated sum that the mapping does not name (gotd_bot_api InlineQueryResult: "photo" can
		// name only one of InlineQueryResultPhoto / InlineQueryResultCachedPhoto) has no case in the generated encoder
		r.Violate("json/sum-variant-outside-discriminator-mapping-encodes-empty", fmt.Sprintf("%s: a value that passes Validate() holds a sum variant that is encoded as {} : %s (%s)", where, clip(text), why), w(map[string]any{"json": clip(text), "component": comp, "reference_reason": why}))
		return
	case strings.Contains(why, "required: member") && allOfWithSiblings(cs.all):
		// keywords next to allOf (properties/required of the same schema object) are dropped by the generator: the type
		// is that of the allOf member alone
		r.Violate("json/keywords-next-to-allof-dropped", fmt.Sprintf("%s: the generated type has no member for properties declared next to an allOf; its encoding lacks required members: %s (%s)", where, clip(text), why), w(map[string]any{"json": clip(text), "component": comp, "reference_reason": why}))
		return
	}
	if strings.Contains(why, "oneOf: 0 variants") && strings.Contains(compsText, `"discriminator"`) {
		// the document's own conflict: the encoder writes the mapping key into the discriminator member, and the
		// variants' enum for that member does not contain it (gotd_bot_api PassportElementError: discriminator "type",
		// enum of "type" lists section names). Valid once those enums are ignored: tallied
		names := map[string]bool{}
		for _, c := range cs.all {
			c.Walk(func(x *jsonv.Value) {
				if x.Kind == jsonv.Object {
					if d := x.Get("discriminator"); d != nil && d.Kind == jsonv.Object && d.Get("propertyName") != nil {
						names[d.Get("propertyName").Str] = true
					}
				}
			})
		}
		m := map[string]*jsonv.Value{}
		for n, c := range cs.all {
			cc := c.Clone()
			cc.Walk(func(x *jsonv.Value) {
				if x.Kind != jsonv.Object || x.Get("properties") == nil || x.Get("properties").Kind != jsonv.Object {
					return
				}
				for _, pm := range x.Get("properties").Members {
					if names[pm.Name] && pm.Value.Kind == jsonv.Object && pm.Value.Get("enum") != nil {
						var keep []jsonv.Member
						for _, mm := range pm.Value.Members {
							if mm.Name != "enum" {
								keep = append(keep, mm)
							}
						}
						pm.Value.Members = keep
					}
				}
			})
			m[n] = schemaref.OneOfAsAnyOf(cc) // without the enums the variants overlap
		}
		if ok2, _ := schemaref.Validate(m[comp], pv, schemaref.MapResolver(m)); ok2 {
			r.Count("corpus_conformance_discriminator_key_not_in_variant_enum_not_judged", 1)
			return
		}
	}
	switch {
	case relax(false, false, true):
		// corpus oneOf whose variants overlap (no discriminator, no disjoint required sets): the instance is valid
		// once every oneOf is read as anyOf, i.e. it fails only because several variants match
		r.Count("corpus_conformance_overlapping_oneof_not_judged", 1)
	case (strings.Contains(why, "null is not of type") || (at != nil && at.Kind == jsonv.Null)) && strings.Contains(compsText, `"nullable":true`):
		// 'nullable: true' next to allOf/oneOf/anyOf or on a $ref holder: whether null is allowed there is read
		// differently by tools (OpenAPI 3.0.3 ties nullable to a 'type' in the same schema object)
		r.Count("corpus_conformance_null_next_to_composition_not_judged", 1)
	case relax(true, false, false), relax(true, false, true):
		reqMsg()
	case relax(false, true, false), relax(false, true, true), relax(true, true, false), relax(true, true, true):
		cntMsg()
	default:
		r.Violate("json/corpus-encoding-violates-schema:"+whyClass(why)+":"+cfg.Origin+"#"+comp, fmt.Sprintf("%s: a value that passes its own Validate() encodes to JSON that is invalid against component schema %s: %s ; reference: %s", where, comp, clip(text), why), wit)
	}
}

func c04Type(r *ev.Run, pkg *Package, cfg C04Pkg, t reflect.Type, idx int) {
	enc, dec, _ := jsonCodec(t)
	rng := r.Rand("c04", cfg.Key, t.Name())
	built := 0
	for k := 0; k < cfg.Values; k++ {
		b := &Builder{Pkg: pkg, Rng: rng, Hostile: k%2 == 1, MaxDepth: 4 + k%3}
		v, ok := b.Validated(t, 12)
		if !ok {
			r.Count("values_rejected_by_own_validate", 1)
			continue
		}
		if k := OptKind(t); k == "opt" || k == "optnil" {
			// a wrapper is a JSON value only when set (unset encodes to nothing): force the set states.
			// The format matrix (format_gen.json) reaches its format-specific codecs only through wrappers.
			if !v.FieldByName("Set").Bool() {
				nv := reflect.New(t).Elem()
				nv.Set(v)
				nv.FieldByName("Set").SetBool(true)
				nv.FieldByName("Value").Set(b.Value(nv.FieldByName("Value").Type(), 1))
				if ValidateValue(nv) != nil {
					continue
				}
				v = nv
			}
		}
		built++
		s0 := SnapValue(v)
		key := cfg.Key + "|" + t.Name() + "|" + Descr(s0)
		r.Eval(1)
		r.Distinct(key)
		w := func(extra map[string]any) map[string]any {
			m := map[string]any{"package": cfg.Key, "origin": cfg.Origin, "type": t.Name(), "value": Descr(s0)}
			for k, v := range extra {
				m[k] = v
			}
			return m
		}
		where := cfg.Origin + "." + t.Name()
		// one leg: encode, strict parse, decode
		leg := func(x reflect.Value, name string) (text []byte, pv *jsonv.Value, out reflect.Value, ok bool) {
			text, pan := encodeJSON(enc, x)
			if pan != "" {
				r.Violate("json/encode-panic", fmt.Sprintf("%s: %s Encode panicked on a value its Validate accepts: %s; value %s", where, name, pan, Descr(SnapValue(x))), w(map[string]any{"panic": pan}))
				return
			}
			pv, perr := jsonv.Parse(text)
			if perr != nil {
				r.Violate("json/malformed-output", fmt.Sprintf("%s: Encode wrote text that is not RFC 8259 JSON (%v): %s", where, perr, clip(text)), w(map[string]any{"json": clip(text)}))
				return
			}
			if pv.HasDuplicateKeys() {
				r.Violate("json/duplicate-member", fmt.Sprintf("%s: Encode wrote an object with duplicate member names: %s", where, clip(text)), w(map[string]any{"json": clip(text)}))
				return
			}
			if name == "first" {
				c04Conforms(r, cfg, t, where, text, pv, w)
			}
			out, derr, pan := decodeJSON(dec, t, text)
			if pan != "" {
				r.Violate("json/decode-panic", fmt.Sprintf("%s: Decode panicked on the type's own encoding %s: %s", where, clip(text), pan), w(map[string]any{"json": clip(text), "panic": pan}))
				return
			}
			if derr != nil {
				msg := derr.Error()
				switch {
				case strings.Contains(msg, "unable to detect sum type variant"):
					// corpus oneOf without discriminator: a value whose distinguishing members are all unset has no
					// unambiguous encoding (nor is it valid against the oneOf); not judged without the schema
					r.Count("ambiguous_sum_encoding_not_judged", 1)
				case strings.Contains(msg, "wrong ip version"):
					// format ipv4/ipv6 share one Go type (netip.Addr); the builder cannot know which is meant
					r.Count("ip_version_not_revealed_by_go_type", 1)
				case strings.Contains(msg, "object properties number"):
					r.Violate("json/property-count-enforced-by-decode-not-by-validate", fmt.Sprintf("%s: Validate() accepts the value but Decode rejects its encoding %s: %v", where, clip(text), derr), w(map[string]any{"json": clip(text), "error": msg}))
				case name == "second" && strings.Contains(msg, "empty url"):
					// a decoded value (schema default "" applied to a format: uri member) re-encodes to "", which the
					// type's own decoder rejects
					r.Violate("json/default-empty-uri-not-decodable", fmt.Sprintf("%s: the value decoded from %s carries the schema default \"\" for a uri member; its re-encoding %s is rejected by Decode: %v", where, "the first encoding", clip(text), derr), w(map[string]any{"json": clip(text), "error": msg}))
				default:
					r.Violate("json/decode-rejects-own-encoding", fmt.Sprintf("%s: Decode rejects the type's own encoding %s: %v", where, clip(text), derr), w(map[string]any{"json": clip(text), "error": msg}))
				}
				return
			}
			return text, pv, out, true
		}
		text, pv, v1, ok := leg(v, "first")
		if !ok {
			continue
		}
		text1, p1, v2, ok := leg(v1, "second")
		if !ok {
			continue
		}
		s1, s2 := SnapValue(v1), SnapValue(v2)
		// D. nothing written is lost or changed; members added by Decode (schema defaults) are allowed
		if why, av, bv := jsonSubset(pv, p1, ""); why != "" {
			sg := "json/re-encoding-differs"
			if ulpApart(av, bv) {
				// a float64 written in shortest form comes back as a neighbouring float64
				sg = "json/float64-decode-off-by-ulp"
			}
			r.Violate(sg, fmt.Sprintf("%s: encode(decode(b)) lost or changed part of b at %s: %s vs %s", where, why, clip(text), clip(text1)), w(map[string]any{"json": clip(text), "json2": clip(text1), "at": why}))
			continue
		}
		if !jsonv.Equal(pv, p1) {
			r.Count("values_with_schema_defaults_added_by_decode", 1)
		}
		// C/E. after one decode the value is a fixed point, at the JSON and at the Go level
		text2, pan := encodeJSON(enc, v2)
		if pan != "" {
			r.Violate("json/encode-panic", fmt.Sprintf("%s: re-Encode panicked: %s", where, pan), w(nil))
			continue
		}
		if p2, e2 := jsonv.Parse(text2); e2 != nil || !jsonv.Equal(p1, p2) {
			r.Violate("json/not-a-fixed-point", fmt.Sprintf("%s: second round trip changes the JSON: %s vs %s", where, clip(text1), clip(text2)), w(map[string]any{"json": clip(text1), "json2": clip(text2)}))
			continue
		}
		if dd := Diff(s1, s2, nil); dd != "" {
			r.Violate("json/second-round-trip-changes-value:"+diffClass(dd), fmt.Sprintf("%s: decode(encode(v1)) != v1 for an already decoded v1: %s (json %s)", where, dd, clip(text1)), w(map[string]any{"json": clip(text1), "difference": dd}))
			continue
		}
		// F. Go level, first leg
		var defaults []string
		reprDiffers := false
		if dd := Diff(s0, s1, &DiffOptions{AllowDefaults: true, Defaults: &defaults}); dd != "" {
			reprDiffers = true
			switch c := diffClass(dd); {
			case c == "optional-state" && strings.Contains(dd, "Null:struct {}{}") && strings.Contains(dd, "got <null>"):
				// a sum with a null variant inside a nullable wrapper: "set to the null variant" and "null" are
				// one JSON text (null) - two Go representations of the same state
				r.Count("go_representation_differs_same_json:null-variant-of-sum", 1)
			case untaggedField(t, dd):
				// a property whose name is the empty string becomes a struct field without a JSON name: neither
				// encoded nor decoded
				r.Violate("json/member-with-empty-name-not-encoded", fmt.Sprintf("%s: decode(encode(v)) != v: %s (json %s): the struct field has no JSON name (property \"\" of the schema)", where, dd, clip(text)), w(map[string]any{"json": clip(text), "difference": dd}))
				continue
			case c == "optional-state" || c == "empty-array" || c == "length":
				r.Violate("json/round-trip-changes-value:"+c, fmt.Sprintf("%s: decode(encode(v)) != v: %s (json %s)", where, dd, clip(text)), w(map[string]any{"json": clip(text), "decoded": Descr(s1), "difference": dd}))
				continue
			default:
				// a difference of the Go representation that encodes to the same JSON (integral float in an
				// integer|number sum, discriminator member overwritten by its mapping, time below the
				// format's resolution) is not observable in the encoding: tallied
				r.Count("go_representation_differs_same_json:"+c, 1)
			}
		}
		if verr := ValidateValue(v1); verr != nil && reprDiffers {
			// the decoded value differs from the sent one in a way that is not visible in the JSON (discriminator member
			// overwritten by its mapping key): when the document's enum for that member does not contain the mapping
			// key (gotd_bot_api PassportElementError) the decoded value fails Validate; a property of the document
			r.Count("decoded_value_invalid_after_representation_change_not_judged", 1)
		} else if verr != nil {
			r.Violate("json/decoded-value-invalid", fmt.Sprintf("%s: value decoded from own encoding fails Validate: %v", where, verr), w(map[string]any{"json": clip(text)}))
			continue
		}
		// G. the standard-library face of the codec: what MarshalJSON returned stays what it was when the codec is used
		// again (the caller owns the bytes), equals the Encode text, and UnmarshalJSON reads it back
		if mj, ok := reflect.PointerTo(t).MethodByName("MarshalJSON"); ok && mj.Type.NumIn() == 1 && mj.Type.NumOut() == 2 {
			call := func(x reflect.Value) ([]byte, string) {
				var out []byte
				pan, txt := ev.Guard(func() {
					p := reflect.New(t)
					p.Elem().Set(x)
					res := mj.Func.Call([]reflect.Value{p})
					if res[1].IsNil() {
						out, _ = res[0].Interface().([]byte)
					}
				})
				if pan {
					return nil, txt
				}
				return out, ""
			}
			m1, pan := call(v)
			if pan != "" {
				r.Violate("json/marshal-panic", fmt.Sprintf("%s: MarshalJSON panicked: %s", where, pan), w(nil))
				continue
			}
			if m1 != nil {
				keep := append([]byte(nil), m1...)
				// use the codec again, with other values, before looking at the first result
				call(v2)
				call(v1)
				encodeJSON(enc, v2)
				r.Count("marshaljson_results_checked_after_reuse", 1)
				if !bytes.Equal(m1, keep) {
					r.Violate("json/marshaljson-result-changes-after-next-call", fmt.Sprintf("%s: the bytes MarshalJSON returned changed when MarshalJSON was called again: %s -> %s", where, clip(keep), clip(m1)), w(map[string]any{"json": clip(keep), "json2": clip(m1)}))
					continue
				}
				if pm, err := jsonv.Parse(keep); err != nil || !jsonv.Equal(pm, pv) {
					r.Violate("json/marshaljson-differs-from-encode", fmt.Sprintf("%s: MarshalJSON wrote %s, Encode wrote %s", where, clip(keep), clip(text)), w(map[string]any{"json": clip(text), "json2": clip(keep)}))
					continue
				}
			}
		}
		r.Count("round_trips_exact", 1)
		if idx%97 == 0 && k == 0 {
			r.Sample(w(map[string]any{"json": clip(text)}))
		}
	}
	if built == 0 {
		r.Count("types_without_any_valid_value", 1)
	} else {
		r.Count("types_exercised", 1)
	}
}

// jsonSubset returns "" when every part of a is present and equal in b (objects in b may have
// additional members), else the path of the first part of a that is missing or different
// (and the two differing nodes).
func jsonSubset(a, b *jsonv.Value, path string) (string, *jsonv.Value, *jsonv.Value) {
	if a.Kind != b.Kind {
		return path + " (kind)", a, b
	}
	switch a.Kind {
	case jsonv.Object:
		for _, m := range a.Members {
			bv := b.Get(m.Name)
			if bv == nil {
				return path + "/" + m.Name + " (missing)", m.Value, nil
			}
			if w, x, y := jsonSubset(m.Value, bv, path+"/"+m.Name); w != "" {
				return w, x, y
			}
		}
		return "", nil, nil
	case jsonv.Array:
		if len(a.Elems) != len(b.Elems) {
			return path + " (length)", a, b
		}
		for i := range a.Elems {
			if w, x, y := jsonSubset(a.Elems[i], b.Elems[i], fmt.Sprintf("%s/%d", path, i)); w != "" {
				return w, x, y
			}
		}
		return "", nil, nil
	}
	if !jsonv.Equal(a, b) {
		return path, a, b
	}
	return "", nil, nil
}

// ulpApart: two JSON numbers that are different but within a few units in the last place of float64.
func ulpApart(a, b *jsonv.Value) bool {
	if a == nil || b == nil || a.Kind != jsonv.Number || b.Kind != jsonv.Number {
		return false
	}
	x, y := a.Num.Float64(), b.Num.Float64()
	if x == y || x == 0 || math.IsInf(x, 0) || math.IsInf(y, 0) {
		return x == y && !a.Num.Equal(b.Num) // same float, different decimal text
	}
	return math.Abs(x-y) <= math.Abs(x)*math.Ldexp(1, -50)
}

func clip(b []byte) string {
	if len(b) > 400 {
		return string(b[:400]) + "…"
	}
	return string(b)
}

// diffClass names the leaf kind of a difference so that unrelated defects get different signatures.
func diffClass(d string) string {
	switch {
	case strings.Contains(d, "bits "):
		return "float"
	case strings.Contains(d, "<unset>") || strings.Contains(d, "<null>") || strings.Contains(d, "set("):
		return "optional-state"
	case strings.Contains(d, "empty array"):
		return "empty-array"
	case strings.Contains(d, "variant"):
		return "variant"
	case strings.Contains(d, "items") || strings.Contains(d, "entries"):
		return "length"
	case strings.Contains(d, "raw:"):
		return "raw"
	case strings.Contains(d, "url:"):
		return "url"
	case strings.Contains(d, "T") && strings.Contains(d, "Z"):
		return "time"
	}
	return "other"
}

// untaggedField: the difference "<.Field>: sent ..., got <unset>" concerns a struct field without JSON name.
func untaggedField(t reflect.Type, dd string) bool {
	if t.Kind() != reflect.Struct || !strings.HasPrefix(dd, ".") {
		return false
	}
	name := dd[1:]
	if i := strings.IndexAny(name, ":.[ "); i >= 0 {
		name = name[:i]
	}
	f, ok := t.FieldByName(name)
	if !ok {
		return false
	}
	_, tagged := f.Tag.Lookup("json")
	return !tagged
}

// allOfWithSiblings: some schema object of the components has allOf next to properties or required.
func allOfWithSiblings(comps map[string]*jsonv.Value) bool {
	found := false
	for _, c := range comps {
		c.Walk(func(x *jsonv.Value) {
			if x.Kind == jsonv.Object && x.Get("allOf") != nil && (x.Get("properties") != nil || x.Get("required") != nil) {
				found = true
			}
		})
	}
	return found
}

// pruneEmptyElems returns a copy without the empty objects that are array elements, and their number.
func pruneEmptyElems(v *jsonv.Value) (*jsonv.Value, int) {
	c := v.Clone()
	n := 0
	c.Walk(func(x *jsonv.Value) {
		if x.Kind != jsonv.Array {
			return
		}
		var keep []*jsonv.Value
		for _, e := range x.Elems {
			if e.Kind == jsonv.Object && len(e.Members) == 0 {
				n++
				continue
			}
			keep = append(keep, e)
		}
		x.Elems = keep
	})
	return c, n
}
