package servlab

import (
	"bufio"
	"bytes"
	"context"
	"encoding/json"
	"errors"
	"fmt"
	"io"
	"net/http"
	"net/url"
	"reflect"
	"runtime"
	"strings"
	"sync"

	"github.com/ogen-go/ogen/ogenerrors"
	"github.com/ogen-go/ogen/validate"

	"verifharness/internal/ev"
	"verifharness/internal/jsonv"
)

type C15Pkg struct {
	Key    string     `json:"key"`
	Origin string     `json:"origin"`
	PerOp  int        `json:"per_op"`           // valid requests captured per operation
	Muts   int        `json:"mutants"`          // PRNG mutants per captured request (on top of the systematic ones)
	Probes []C15Probe `json:"probes,omitempty"` // operations as the document declares them (method, path, parameters)
}

// C15Param / C15Probe: the declaration of one operation, read from the document by the parent.
type C15Param struct {
	Name string `json:"name"`
	In   string `json:"in"`
}

type C15Probe struct {
	Method       string     `json:"method"`
	Path         string     `json:"path"`
	Params       []C15Param `json:"params,omitempty"`
	ContentTypes []string   `json:"content_types,omitempty"`
}

type C15Data struct {
	Pkgs []C15Pkg `json:"pkgs"`
}

func init() { drivers["c15"] = runC15 }

// countingWriter records WriteHeader calls and writes.
type countingWriter struct {
	h          http.Header
	codes      []int
	body       bytes.Buffer
	wroteFirst bool
}

func (w *countingWriter) Header() http.Header {
	if w.h == nil {
		w.h = http.Header{}
	}
	return w.h
}
func (w *countingWriter) WriteHeader(c int) { w.codes = append(w.codes, c) }
func (w *countingWriter) Write(b []byte) (int, error) {
	if len(w.codes) == 0 {
		w.codes = append(w.codes, 200)
	}
	if w.body.Len() < 1<<16 {
		w.body.Write(b)
	}
	return len(b), nil
}
func (w *countingWriter) status() int {
	if len(w.codes) == 0 {
		return 200 // net/http sends 200 when the handler wrote nothing
	}
	return w.codes[0]
}

type c15Disp struct {
	pkg     *Package
	mu      sync.Mutex
	handler []string
	argSnap string // what the handler received (parameters and body), rendered
	reqSnap any
	errs    []error
	nf, na  int
	fail    bool // handler returns an error
	srcT    map[string]reflect.Type
	resT    map[string]reflect.Type // op -> response type
}

var errHandler = errors.New("verif: scripted handler failure")

func (d *c15Disp) Call(iface, method string, args []any) []any {
	switch iface {
	case "Handler":
		if method == "NewError" {
			return nil
		}
		d.mu.Lock()
		d.handler = append(d.handler, method)
		fail := d.fail
		d.mu.Unlock()
		// read streaming bodies like a real handler would; keep what arrived
		var got []string
		for _, a := range args[1:] {
			if a != nil {
				got = append(got, Descr(Snap(a)))
			}
		}
		d.mu.Lock()
		d.argSnap = strings.Join(got, " | ")
		d.mu.Unlock()
		if fail {
			return []any{nil, errHandler}
		}
		rt := d.resT[method]
		if rt == nil {
			return []any{nil}
		}
		b := &Builder{Pkg: d.pkg, Rng: ev.NewRand(3, "c15res", method), Tame: true, MaxDepth: 2}
		v, ok := b.Validated(rt, 6)
		if !ok {
			v = b.Value(rt, 0)
		}
		holder := reflect.New(rt).Elem()
		holder.Set(v)
		return []any{holder.Interface(), nil}
	case "SecurityHandler":
		return []any{args[0], nil}
	case "SecuritySource":
		t := d.srcT[method]
		if t == nil {
			return []any{nil}
		}
		b := &Builder{Pkg: d.pkg, Rng: ev.NewRand(7, "cred", method), Tame: true}
		return []any{b.Value(t, 0).Interface(), nil}
	}
	return nil
}

func (d *c15Disp) errorHandler(ctx context.Context, w http.ResponseWriter, r *http.Request, err error) {
	d.mu.Lock()
	d.errs = append(d.errs, err)
	d.mu.Unlock()
	ogenerrors.DefaultErrorHandler(ctx, w, r, err)
}

func (d *c15Disp) reset(fail bool) {
	d.mu.Lock()
	d.handler, d.errs, d.nf, d.na, d.fail, d.argSnap = nil, nil, 0, 0, fail, ""
	d.mu.Unlock()
}

// captureTransport records the wire form of what the generated client sends and answers with a canned error.
type captureTransport struct {
	mu  sync.Mutex
	raw [][]byte
}

var errCaptured = errors.New("captured")

func (t *captureTransport) Do(req *http.Request) (*http.Response, error) {
	var buf bytes.Buffer
	if req.URL.Host == "" && req.Host == "" {
		req.Host = "verif.local"
	}
	if err := req.Write(&buf); err != nil {
		return nil, err
	}
	t.mu.Lock()
	t.raw = append(t.raw, append([]byte(nil), buf.Bytes()...))
	t.mu.Unlock()
	return nil, errCaptured
}

func runC15(r *ev.Run, data json.RawMessage) error {
	var d C15Data
	if err := json.Unmarshal(data, &d); err != nil {
		return err
	}
	var firstErr error
	var emu sync.Mutex
	ev.Parallel(len(d.Pkgs), runtime.NumCPU(), func(i int) {
		defer func() {
			if p := recover(); p != nil {
				emu.Lock()
				if firstErr == nil {
					buf := make([]byte, 4096)
					n := runtime.Stack(buf, false)
					firstErr = fmt.Errorf("%s: harness panic: %v\n%s", d.Pkgs[i].Origin, p, buf[:n])
				}
				emu.Unlock()
			}
		}()
		if err := c15Pkg(r, &d.Pkgs[i]); err != nil {
			emu.Lock()
			if firstErr == nil {
				firstErr = err
			}
			emu.Unlock()
		}
	})
	return firstErr
}

func c15Pkg(r *ev.Run, pc *C15Pkg) error {
	pkg := Lookup(pc.Key)
	if pkg == nil {
		return fmt.Errorf("package %s not linked", pc.Key)
	}
	ht := pkg.Type("Handler")
	if ht == nil || ht.Kind() != reflect.Interface {
		return nil
	}
	disp := &c15Disp{pkg: pkg, srcT: map[string]reflect.Type{}, resT: map[string]reflect.Type{}}
	if st := pkg.Type("SecuritySource"); st != nil && st.Kind() == reflect.Interface {
		for i := 0; i < st.NumMethod(); i++ {
			if m := st.Method(i); m.Type.NumOut() == 2 {
				disp.srcT[m.Name] = m.Type.Out(0)
			}
		}
	}
	for i := 0; i < ht.NumMethod(); i++ {
		if m := ht.Method(i); m.Type.NumOut() == 2 {
			disp.resT[m.Name] = m.Type.Out(0)
		}
	}
	srv, err := pkg.NewServer(disp, ServerConfig{
		ErrorHandler: disp.errorHandler,
		NotFound: func(w http.ResponseWriter, r *http.Request) {
			disp.mu.Lock()
			disp.nf++
			disp.mu.Unlock()
			http.NotFound(w, r)
		},
		MethodNotAllowed: func(w http.ResponseWriter, r *http.Request, allowed string) {
			disp.mu.Lock()
			disp.na++
			disp.mu.Unlock()
			status := http.StatusMethodNotAllowed
			if r.Method == "OPTIONS" {
				w.Header().Set("Access-Control-Allow-Methods", allowed)
				status = http.StatusNoContent
			} else {
				w.Header().Set("Allow", allowed)
			}
			w.WriteHeader(status)
		},
	})
	if err != nil {
		return err
	}
	ct := &captureTransport{}
	cl, err := pkg.NewClient(disp, ClientConfig{URL: "http://verif.local", HTTP: ct})
	if err != nil {
		return err
	}
	clv := reflect.ValueOf(cl)
	r.Count("packages", 1)
	rng := r.Rand("c15", pc.Origin)

	// 1. capture valid requests
	type captured struct {
		op  string
		raw []byte
	}
	var caps []captured
	for _, op := range pkg.Ops {
		if op.Iface != "Handler" {
			continue
		}
		hm, ok := ht.MethodByName(op.Name)
		cm := clv.MethodByName(op.Name)
		if !ok || !cm.IsValid() {
			continue
		}
		for k := 0; k < pc.PerOp; k++ {
			b := &Builder{Pkg: pkg, Rng: rng, Hostile: false, Tame: k == 0, MaxDepth: 3}
			in := []reflect.Value{reflect.ValueOf(context.Background())}
			okb := true
			for i := 1; i < hm.Type.NumIn(); i++ {
				v, ok := b.Validated(hm.Type.In(i), 8)
				if !ok {
					okb = false
					break
				}
				in = append(in, v)
			}
			if !okb {
				continue
			}
			before := len(ct.raw)
			func() {
				defer func() { recover() }()
				cm.Call(in)
			}()
			if len(ct.raw) > before {
				caps = append(caps, captured{op.Name, ct.raw[len(ct.raw)-1]})
			}
		}
	}
	r.Count("valid_requests_captured", len(caps))

	// operations that declare a request body (from the document's own declarations)
	opHasBody := map[string]bool{}
	{
		byRoute := map[string]bool{}
		for _, pb := range pc.Probes {
			if len(pb.ContentTypes) > 0 {
				byRoute[pb.Method+" "+pb.Path] = true
			}
		}
		for _, op := range pkg.Ops {
			if byRoute[op.Method+" "+op.Path] {
				opHasBody[op.Name] = true
			}
		}
	}
	// lastArgs: what the handler received in the latest serve call ("" when it did not run)
	lastArgs := ""
	lastStatus := 0
	serve := func(raw []byte, hand *http.Request, class string, fail bool) {
		lastArgs = ""
		lastStatus = 0
		var req *http.Request
		if hand != nil {
			req = hand
		} else {
			var err error
			req, err = http.ReadRequest(bufio.NewReader(bytes.NewReader(raw)))
			if err != nil {
				r.Count("mutants_rejected_by_net_http_itself", 1)
				return
			}
			req.RemoteAddr = "127.0.0.1:1"
		}
		disp.reset(fail)
		w := &countingWriter{}
		pan, txt := ev.Guard(func() { srv.ServeHTTP(w, req) })
		var bodyBytes []byte
		if hand == nil {
			if i := bytes.Index(raw, []byte("\r\n\r\n")); i >= 0 {
				bodyBytes = raw[i+4:]
			}
		}
		disp.mu.Lock()
		handler := append([]string(nil), disp.handler...)
		if len(handler) > 0 {
			lastArgs = handler[0] + ": " + disp.argSnap
		}
		errs := append([]error(nil), disp.errs...)
		nf, na := disp.nf, disp.na
		disp.mu.Unlock()
		r.Eval(1)
		r.Distinct(pc.Origin + "|" + class + "|" + string(raw) + fmt.Sprint(hand != nil, fail))
		r.Count("class_"+class, 1)
		st := w.status()
		lastStatus = st
		r.Count(fmt.Sprintf("status_%d", st), 1)
		wit := func() map[string]any {
			m := map[string]any{"origin": pc.Origin, "class": class, "status_codes_written": w.codes, "handler_invoked": handler, "not_found_calls": nf, "method_not_allowed_calls": na, "handler_scripted_to_fail": fail}
			if hand != nil {
				m["hand_built_request"] = fmt.Sprintf("%s Path=%q RawPath=%q RawQuery=%q Body=%v", hand.Method, hand.URL.Path, hand.URL.RawPath, hand.URL.RawQuery, hand.Body != nil)
			} else {
				m["request"] = clip(raw)
			}
			var es []string
			for _, e := range errs {
				es = append(es, fmt.Sprintf("%T: %v", e, e))
			}
			m["error_handler_calls"] = es
			return m
		}
		viol := func(sig, msg string) {
			r.Violate("serve/"+sig, fmt.Sprintf("%s [%s]: %s", pc.Origin, class, msg), wit())
		}
		if pan {
			viol("panic:"+panicSite(txt), "ServeHTTP panicked: "+txt)
			return
		}
		if len(w.codes) > 1 {
			viol("multiple-status-lines", fmt.Sprintf("WriteHeader called %d times: %v", len(w.codes), w.codes))
		}
		if len(handler) > 1 {
			viol("handler-called-twice", "handler invoked more than once")
		}
		stages := 0
		if nf > 0 {
			stages++
		}
		if na > 0 {
			stages++
		}
		if len(errs) > 0 {
			stages++
		}
		if len(handler) > 0 && !fail {
			stages++
		}
		switch {
		case nf > 0:
			r.Count("stage_not_found", 1)
			if st != 404 || len(handler) > 0 {
				viol("not-found-status", fmt.Sprintf("routing failed but status %d / handler %v", st, handler))
			}
		case na > 0:
			r.Count("stage_method_not_allowed", 1)
			if !(st == 405 || (st == 204 && req.Method == "OPTIONS")) || len(handler) > 0 {
				viol("method-not-allowed-status", fmt.Sprintf("method not allowed but status %d / handler %v", st, handler))
			}
		case len(errs) > 0:
			e := errs[0]
			var sec *ogenerrors.SecurityError
			var dp *ogenerrors.DecodeParamsError
			var dr *ogenerrors.DecodeRequestError
			switch {
			case errors.As(e, &sec):
				r.Count("stage_security", 1)
				if st != 401 || len(handler) > 0 {
					viol("security-status", fmt.Sprintf("security failure but status %d / handler %v", st, handler))
				}
			case errors.As(e, &dp):
				r.Count("stage_params", 1)
				if st != 400 || len(handler) > 0 {
					viol("params-status", fmt.Sprintf("parameter decoding failed but status %d / handler %v", st, handler))
				}
			case errors.As(e, &dr):
				r.Count("stage_body", 1)
				var ict *validate.InvalidContentTypeError
				want := 400
				if errors.As(e, &ict) {
					want = 415
				}
				if st != want || len(handler) > 0 {
					viol("body-status", fmt.Sprintf("body decoding failed (%v) but status %d (want %d) / handler %v", e, st, want, handler))
				}
			default:
				r.Count("stage_handler_error", 1)
				if len(handler) == 0 {
					viol("unclassified-error-before-handler", fmt.Sprintf("error handler got %T before the handler ran: %v", e, e))
				} else if st != 500 && !(errors.Is(e, errHandler) && st >= 400) {
					viol("handler-error-status", fmt.Sprintf("handler failed but status is %d", st))
				}
			}
		case len(handler) > 0:
			r.Count("stage_handler", 1)
			if st < 200 || st > 599 {
				viol("handler-ok-status", fmt.Sprintf("handler succeeded, status %d", st))
			}
			// over-acceptance: the operation takes a body, the request declares a Content-Type that is not of the form
			// type/subtype - no media type (or media range) of the document can match it
			if ctv := req.Header.Get("Content-Type"); hand == nil && ctv != "" && opHasBody[handler[0]] && req.ContentLength != 0 {
				mt := strings.TrimSpace(strings.SplitN(ctv, ";", 2)[0])
				if tp, sub, ok := strings.Cut(mt, "/"); !ok || tp == "" || sub == "" || strings.Contains(sub, "/") {
					viol("content-type-without-subtype-accepted", fmt.Sprintf("handler %s ran although the Content-Type %q names no media type", handler[0], ctv))
				}
			}
			// over-acceptance: a JSON body that reached the handler must be one well-formed JSON text
			if hand == nil && strings.HasPrefix(strings.ToLower(req.Header.Get("Content-Type")), "application/json") && req.ContentLength != 0 && len(req.TransferEncoding) == 0 {
				body := bodyBytes
				if cl := req.ContentLength; cl > 0 && int(cl) <= len(body) {
					body = body[:cl]
				}
				if len(bytes.TrimSpace(body)) > 0 {
					if pv, err := jsonv.Parse(body); err != nil && strings.Contains(err.Error(), "invalid UTF-8") {
						// ill-formed UTF-8 inside a string: the statement lists truncated/trailing/duplicate/missing/oversized
						// input, not encoding errors; the decoder passes the bytes through. Tallied.
						r.Count("bodies_with_invalid_utf8_accepted", 1)
					} else if err != nil && strings.Contains(err.Error(), "number:") {
						// a malformed number inside arrays/objects ("-517-555" is read as -5166555): the float fast path of
						// the JSON decoder (go-faster/jx v1.1.0) does not validate the token
						viol("malformed-json-number-accepted", fmt.Sprintf("handler %s ran on a body with a malformed number (%v): %s", handler[0], err, clip(body)))
					} else if err != nil {
						viol("malformed-json-accepted", fmt.Sprintf("handler %s ran on a body that is not one well-formed JSON text (%v): %s", handler[0], err, clip(body)))
					} else if pv.HasDuplicateKeys() {
						r.Count("bodies_with_duplicate_members_accepted", 1)
					}
				}
			}
		default:
			viol("no-stage", fmt.Sprintf("status %d without routing callback, error handler call or handler call (request dropped?)", st))
		}
		if stages > 1 {
			viol("several-stages", fmt.Sprintf("more than one terminal stage reported: notfound=%d notallowed=%d errors=%d handler=%d", nf, na, len(errs), len(handler)))
		}
		if class == "valid" && len(r.SamplesLen()) < 6 {
			r.Sample(wit())
		}
	}

	// 2. valid requests as captured (also with a failing handler)
	for i, c := range caps {
		serve(c.raw, nil, "valid", false)
		if i%3 == 0 {
			serve(c.raw, nil, "valid-handler-fails", true)
		}
	}
	// 3. byte-level mutants
	for _, c := range caps {
		serve(c.raw, nil, "valid", false)
		base := lastArgs
		baseStatus := lastStatus
		for mi, m := range c15Mutants(c.raw, rng, pc.Muts) {
			serve(m.raw, nil, m.class, false)
			// history independence: after a request whose body could not be read to its declared end (and now and then
			// after any other), the valid request is served again and must be answered as it was the first time
			if base != "" && (m.class == "content-length" || m.class == "body-truncated" || m.class == "multipart-truncated" || mi%97 == 96) {
				keepArgs := lastArgs
				serve(c.raw, nil, "valid-again", false)
				if lastArgs != base || lastStatus != baseStatus {
					r.Violate("serve/answer-depends-on-earlier-request", fmt.Sprintf("%s: after a request of class %s the valid request is answered differently: status %d -> %d, handler arguments %s -> %s", pc.Origin, m.class, baseStatus, lastStatus, clip([]byte(base)), clip([]byte(lastArgs))),
						map[string]any{"origin": pc.Origin, "earlier_request_class": m.class, "earlier_request": clip(m.raw), "request": clip(c.raw), "first_answer": map[string]any{"status": baseStatus, "handler_received": clip([]byte(base))}, "later_answer": map[string]any{"status": lastStatus, "handler_received": clip([]byte(lastArgs))}})
				}
				lastArgs = keepArgs
			}
			if m.class == "query-repeated-other-value" && base != "" && lastArgs == base {
				// is the repeated key an operation parameter at all? A security credential in the query is not
				// (the security handler takes the first value); dropping an operation parameter changes what the
				// handler receives or gets the request refused with a parameter error
				got := lastArgs
				key := repeatedKey(m.raw)
				serve(dropQueryKey(c.raw, key), nil, "query-param-dropped", false)
				credential := lastArgs == base || (lastArgs == "" && disp.lastErrIsSecurity())
				lastArgs = got
				if credential {
					r.Count("repeated_query_credentials_not_judged", 1)
					continue
				}
			}
			if (m.class == "query-repeated-other-value" || m.class == "form-field-repeated-other-value") && base != "" && lastArgs == base {
				// a second, different value for a parameter or form field: either the request is refused (a scalar) or
				// the handler sees the extra value (an array); the same arguments as without it means it was dropped
				r.Violate("serve/repeated-value-silently-ignored", fmt.Sprintf("%s [%s]: the handler ran with exactly the arguments of the request without the repeated value: %s", pc.Origin, m.class, clip(m.raw)), map[string]any{"origin": pc.Origin, "class": m.class, "request": clip(m.raw), "handler_received": clip([]byte(lastArgs))})
			}
		}
	}
	// 4. hand-built requests that bypass net/http's URL validation
	paths := []string{"/", "", "//", "/%", "/a%zz"}
	for _, op := range pkg.Ops {
		if op.Iface == "Handler" && len(paths) < 40 {
			paths = append(paths, op.Path, strings.NewReplacer("{", "", "}", "").Replace(op.Path))
		}
	}
	// RawPath spellings: a prefix that is plain, needlessly escaped (unreserved byte, lower-case hex: both
	// leave the normaliser's scan-only path) or has escaped separators, times a tail that is a complete,
	// truncated or non-hexadecimal escape at the end of the string or in front of more text
	escFirst := func(p string, lower bool) string {
		for i := 0; i < len(p); i++ {
			if c := p[i]; c >= 'a' && c <= 'z' || c >= 'A' && c <= 'Z' {
				e := fmt.Sprintf("%%%02X", c)
				if lower {
					e = strings.ToLower(e)
				}
				return p[:i] + e + p[i+1:]
			}
		}
		return p + "%7e"
	}
	tails := []string{"", "%", "%4", "%a", "%F", "%zz", "%4z", "%z4", "%%", "%41%", "%41%4", "%4/ab", "%/ab", "%C3", "%c3%a", "%2f%3", "%2F%3", "%00", "\x00", "%2", "%2f", "%2F"}
	for _, p := range paths {
		var raws []string
		for _, pre := range []string{p, escFirst(p, false), escFirst(p, true), strings.ReplaceAll(p, "/", "%2f"), "/" + strings.ReplaceAll(strings.TrimPrefix(p, "/"), "/", "%2F")} {
			for _, tl := range tails {
				raws = append(raws, pre+tl)
			}
		}
		raws = append(raws, "/%", "/%41%")
		for ri, raw := range raws {
			if raw == p {
				raw = ""
			}
			methods := []string{"GET", "POST", "", "get", "PÖST"}
			if ri%5 != 0 {
				methods = methods[ri%2 : ri%2+1] // every method for a fifth of the spellings, GET or POST for the rest
			}
			for _, m := range methods {
				var body io.ReadCloser
				if rng.Bool() {
					body = io.NopCloser(strings.NewReader("{}"))
				}
				h := &http.Request{Method: m, URL: &url.URL{Path: p, RawPath: raw, RawQuery: ev.Pick(rng, []string{"", "a=%zz", "a=1&a=2", "%", ";;=;"})}, Header: http.Header{}, Body: body, Host: "x", Proto: "HTTP/1.1", ProtoMajor: 1, ProtoMinor: 1}
				if rng.Bool() {
					h.Header.Set("Content-Type", "application/json")
				}
				serve(nil, h, "hand-built", false)
			}
		}
	}
	// 5. parameter probes: requests synthesised from the document's declarations, independent of the generated client
	probeVals := []string{"a", "1", "a,b", "a|b", "a b", "k,v", "k=v", "", ".a.b", ";t=a", "true", "[1]", `{"a":1}`}
	for _, pb := range pc.Probes {
		fill := func(val string) string {
			p := pb.Path
			for _, q := range pb.Params {
				if q.In == "path" {
					p = strings.ReplaceAll(p, "{"+q.Name+"}", url.PathEscape(val))
				}
			}
			return p
		}
		build := func(path string, query []string, hdr [][2]string, cookies []string, ct, body string) []byte {
			var b bytes.Buffer
			target := path
			if len(query) > 0 {
				target += "?" + strings.Join(query, "&")
			}
			fmt.Fprintf(&b, "%s %s HTTP/1.1\r\nHost: verif.local\r\n", pb.Method, target)
			for _, h := range hdr {
				fmt.Fprintf(&b, "%s: %s\r\n", h[0], h[1])
			}
			if len(cookies) > 0 {
				fmt.Fprintf(&b, "Cookie: %s\r\n", strings.Join(cookies, "; "))
			}
			if ct != "" {
				fmt.Fprintf(&b, "Content-Type: %s\r\n", ct)
			}
			fmt.Fprintf(&b, "Content-Length: %d\r\n\r\n%s", len(body), body)
			return b.Bytes()
		}
		ct, body := "", ""
		if len(pb.ContentTypes) > 0 {
			ct = pb.ContentTypes[0]
			if strings.Contains(ct, "json") {
				body = "{}"
			}
		}
		for vi, val := range probeVals {
			// every parameter set to the same text
			var query []string
			var hdr [][2]string
			var cookies []string
			for _, q := range pb.Params {
				switch q.In {
				case "query":
					query = append(query, url.QueryEscape(q.Name)+"="+url.QueryEscape(val))
				case "header":
					if val != "" {
						hdr = append(hdr, [2]string{q.Name, val})
					}
				case "cookie":
					cookies = append(cookies, q.Name+"="+url.QueryEscape(val))
				}
			}
			pv := val
			if pv == "" {
				pv = "a"
			}
			serve(build(fill(pv), query, hdr, cookies, ct, body), nil, "param-probe", false)
			if vi > 3 {
				continue
			}
			// one parameter at a time, repeated keys, bracketed keys
			for _, q := range pb.Params {
				switch q.In {
				case "query":
					n := url.QueryEscape(q.Name)
					for _, qs := range [][]string{{n + "=" + url.QueryEscape(val)}, {n + "=" + url.QueryEscape(val), n + "=b"}, {n + "[k]=" + url.QueryEscape(val)}, {n}, {"k=" + url.QueryEscape(val)}} {
						serve(build(fill("a"), qs, nil, nil, ct, body), nil, "param-probe", false)
					}
				case "header":
					serve(build(fill("a"), nil, [][2]string{{q.Name, val}}, nil, ct, body), nil, "param-probe", false)
					serve(build(fill("a"), nil, [][2]string{{q.Name, val}, {q.Name, "b"}}, nil, ct, body), nil, "param-probe", false)
				case "cookie":
					serve(build(fill("a"), nil, nil, []string{q.Name + "=" + url.QueryEscape(val)}, ct, body), nil, "param-probe", false)
				}
			}
		}
	}
	return nil
}

func panicSite(txt string) string {
	for _, k := range []string{"index out of range", "nil pointer", "slice bounds", "nested", "not allowed", "unreachable", "invalid memory"} {
		if strings.Contains(txt, k) {
			return strings.ReplaceAll(k, " ", "-")
		}
	}
	if len(txt) > 40 {
		txt = txt[:40]
	}
	return txt
}

type c15Mut struct {
	raw   []byte
	class string
}

func c15Mutants(raw []byte, rng *ev.Rand, n int) []c15Mut {
	var out []c15Mut
	add := func(b []byte, class string) { out = append(out, c15Mut{b, class}) }
	hi := bytes.Index(raw, []byte("\r\n\r\n"))
	if hi < 0 {
		return nil
	}
	head, body := raw[:hi], raw[hi+4:]
	lines := strings.Split(string(head), "\r\n")
	rebuild := func(ls []string, b []byte) []byte {
		return append([]byte(strings.Join(ls, "\r\n")+"\r\n\r\n"), b...)
	}
	setHeader := func(name, val string, b []byte) []byte {
		var ls []string
		found := false
		for i, l := range lines {
			if i > 0 && strings.HasPrefix(strings.ToLower(l), strings.ToLower(name)+":") {
				if val != "\x00drop" {
					ls = append(ls, name+": "+val)
				}
				found = true
				continue
			}
			ls = append(ls, l)
		}
		if !found && val != "\x00drop" {
			ls = append(ls, name+": "+val)
		}
		return rebuild(ls, b)
	}
	withLen := func(b []byte) []byte { return setHeader("Content-Length", fmt.Sprint(len(b)), b) }
	chunked := bytes.Contains(bytes.ToLower(head), []byte("transfer-encoding: chunked"))
	// request line mutations
	rl := strings.SplitN(lines[0], " ", 3)
	if len(rl) == 3 {
		for _, m := range []string{"GET", "POST", "PUT", "DELETE", "PATCH", "HEAD", "OPTIONS", "TRACE", "BREW"} {
			if m != rl[0] {
				add(rebuild(append([]string{m + " " + rl[1] + " " + rl[2]}, lines[1:]...), body), "method")
			}
		}
		for _, t := range []string{rl[1] + "/", rl[1] + "x", rl[1] + "%", rl[1] + "%zz", rl[1] + "%2F", rl[1] + "?", rl[1] + "?a=%zz", rl[1] + "&&==", strings.Replace(rl[1], "?", "?%=%&", 1), "/", "*", rl[1] + "?" + strings.Repeat("a=1&", 2000)} {
			add(rebuild(append([]string{rl[0] + " " + t + " " + rl[2]}, lines[1:]...), body), "target")
		}
		if i := strings.IndexByte(rl[1], '?'); i >= 0 {
			add(rebuild(append([]string{rl[0] + " " + rl[1][:i] + " " + rl[2]}, lines[1:]...), body), "query-dropped")
			for _, kv := range strings.Split(rl[1][i+1:], "&") {
				add(rebuild(append([]string{rl[0] + " " + rl[1] + "&" + kv + " " + rl[2]}, lines[1:]...), body), "query-duplicated")
				add(rebuild(append([]string{rl[0] + " " + rl[1] + "&" + strings.SplitN(kv, "=", 2)[0] + "=zz9 " + rl[2]}, lines[1:]...), body), "query-repeated-other-value")
				add(rebuild(append([]string{rl[0] + " " + strings.Replace(rl[1], kv, strings.SplitN(kv, "=", 2)[0]+"=%ff%fe", 1) + " " + rl[2]}, lines[1:]...), body), "query-corrupted")
				add(rebuild(append([]string{rl[0] + " " + strings.Replace(rl[1], kv, "", 1) + " " + rl[2]}, lines[1:]...), body), "query-param-dropped")
			}
		}
	}
	// header mutations
	for i := 1; i < len(lines); i++ {
		name := strings.SplitN(lines[i], ":", 2)[0]
		ln := strings.ToLower(name)
		if ln == "host" || ln == "user-agent" {
			continue
		}
		var ls []string
		ls = append(append(ls, lines[:i]...), lines[i+1:]...)
		add(rebuild(ls, body), "header-dropped")
		if ln != "content-length" && ln != "transfer-encoding" {
			add(rebuild(append(append([]string{}, lines...), lines[i]), body), "header-duplicated")
			add(setHeader(name, "\xff\xfe garbage; ,,==", body), "header-corrupted")
			add(setHeader(name, "", body), "header-emptied")
		}
	}
	for _, ctv := range []string{"text/plain", "application/json; charset=utf-8", "application/json;", "APPLICATION/JSON", "application/xml", "", "multipart/form-data", "multipart/form-data; boundary=nope", "application/x-www-form-urlencoded", "*/*", "application/json, text/plain", "a/b/c", ";;;",
		// a type without subtype (mime.ParseMediaType accepts it): no media type or media range matches it
		"application", "application; q=1", "text", "multipart; boundary=x", "image"} {
		add(setHeader("Content-Type", ctv, body), "content-type")
	}
	add(setHeader("Content-Type", "\x00drop", body), "content-type-dropped")
	if !chunked {
		for _, cl := range []string{"0", "-1", "99999999", "18446744073709551616", "abc", fmt.Sprint(len(body) + 1), fmt.Sprint(len(body) / 2),
			// lengths net/http accepts (int64) but no buffer can hold: a server that sizes a buffer from the declared length
			"2147483648", "4611686018427387904", "9223372036854775807"} {
			add(setHeader("Content-Length", cl, body), "content-length")
		}
		// body truncated at every prefix length (up to 64) and with trailing bytes
		for k := 0; k < len(body) && k < 64; k++ {
			add(withLen(body[:k]), "body-truncated")
		}
		for _, t := range []string{" ", "x", "{}", "}", "]", "\x00", ",", "null"} {
			add(withLen(append(append([]byte{}, body...), t...)), "body-trailing")
		}
		if len(body) > 0 && (body[0] == '{' || body[0] == '[') {
			if pv, err := jsonv.Parse(body); err == nil {
				if pv.Kind == jsonv.Object {
					// duplicate and unknown members
					for _, m := range pv.Members {
						c := pv.Clone()
						c.Members = append(c.Members, jsonv.Member{Name: m.Name, Value: m.Value.Clone()})
						add(withLen(jsonv.Compact(c)), "json-duplicate-member")
						c2 := pv.Clone()
						var keep []jsonv.Member
						for _, x := range c2.Members {
							if x.Name != m.Name {
								keep = append(keep, x)
							}
						}
						c2.Members = keep
						add(withLen(jsonv.Compact(c2)), "json-member-dropped")
						c3 := pv.Clone()
						for i := range c3.Members {
							if c3.Members[i].Name == m.Name {
								c3.Members[i].Value = jsonv.NewNull()
							}
						}
						add(withLen(jsonv.Compact(c3)), "json-member-null")
					}
					c := pv.Clone()
					c.Members = append(c.Members, jsonv.Member{Name: "zz_unknown_member", Value: jsonv.NewString("x")})
					add(withLen(jsonv.Compact(c)), "json-unknown-member")
				}
				deep := strings.Repeat("[", 10000) + strings.Repeat("]", 10000)
				add(withLen([]byte(deep)), "json-deep-nesting")
				add(withLen([]byte(strings.Repeat(`{"a":`, 10000)+"1"+strings.Repeat("}", 10000))), "json-deep-nesting")
			}
			for _, alt := range []string{"null", "[]", "{}", "1", `"s"`, "true", "", "{", "[", `{"`, `{"a"`, `{"a":`, "\xef\xbb\xbf{}", "{} {}", "NaN", "'x'", `{"a":1,}`, `[1,]`, "01", "1e999", `"\ud800"`, "\x00", "[1-2]", "[[-517-555]]", `{"a":1-2}`, "[1.2.3]"} {
				add(withLen([]byte(alt)), "json-replaced")
			}
		}
	}
	if bytes.Contains(bytes.ToLower(head), []byte("application/x-www-form-urlencoded")) && len(body) > 0 && !chunked {
		for _, kv := range strings.Split(string(body), "&") {
			if k := strings.SplitN(kv, "=", 2)[0]; k != "" {
				add(withLen([]byte(string(body)+"&"+k+"=zz9")), "form-field-repeated-other-value")
			}
		}
	}
	if bytes.Contains(head, []byte("multipart/form-data")) {
		add(setHeader("Content-Type", "multipart/form-data; boundary=wrongboundary", body), "multipart-boundary")
		add(setHeader("Content-Type", "multipart/form-data", body), "multipart-boundary")
		if len(body) > 40 {
			add(raw[:len(raw)-20], "multipart-truncated")
		}
	}
	// PRNG byte mutants of the whole request
	for k := 0; k < n; k++ {
		b := append([]byte(nil), raw...)
		switch rng.Intn(4) {
		case 0:
			b = b[:rng.Intn(len(b)+1)]
		case 1:
			b[rng.Intn(len(b))] ^= byte(1 << rng.Intn(8))
		case 2:
			p := rng.Intn(len(b) + 1)
			tok := ev.Pick(rng, []string{"%", "%zz", "\x00", "\r\n", ";", "=", "&", "{", "}", "\"", "\\", "/", "?", " ", "\xff"})
			b = append(b[:p:p], append([]byte(tok), b[p:]...)...)
		default:
			p := rng.Intn(len(b))
			q := p + 1 + rng.Intn(8)
			if q > len(b) {
				q = len(b)
			}
			b = append(b[:p:p], b[q:]...)
		}
		add(b, "random-bytes")
	}
	return out
}

// repeatedKey: the key of the last key=value pair of the request target's query.
func repeatedKey(raw []byte) string {
	line := string(raw)
	if i := strings.Index(line, "\r\n"); i >= 0 {
		line = line[:i]
	}
	rl := strings.SplitN(line, " ", 3)
	if len(rl) != 3 {
		return ""
	}
	q := rl[1]
	if i := strings.IndexByte(q, '?'); i >= 0 {
		q = q[i+1:]
	}
	parts := strings.Split(q, "&")
	return strings.SplitN(parts[len(parts)-1], "=", 2)[0]
}

// dropQueryKey removes every key=value pair with that key from the request target.
func dropQueryKey(raw []byte, key string) []byte {
	i := bytes.Index(raw, []byte("\r\n"))
	if i < 0 {
		return raw
	}
	rl := strings.SplitN(string(raw[:i]), " ", 3)
	if len(rl) != 3 {
		return raw
	}
	path, q := rl[1], ""
	if j := strings.IndexByte(path, '?'); j >= 0 {
		path, q = path[:j], path[j+1:]
	}
	var keep []string
	for _, kv := range strings.Split(q, "&") {
		if strings.SplitN(kv, "=", 2)[0] != key && kv != "" {
			keep = append(keep, kv)
		}
	}
	t := path
	if len(keep) > 0 {
		t += "?" + strings.Join(keep, "&")
	}
	return append([]byte(rl[0]+" "+t+" "+rl[2]), raw[i:]...)
}

func (d *c15Disp) lastErrIsSecurity() bool {
	d.mu.Lock()
	defer d.mu.Unlock()
	for _, e := range d.errs {
		var sec *ogenerrors.SecurityError
		if errors.As(e, &sec) {
			return true
		}
	}
	return false
}
