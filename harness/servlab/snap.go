package servlab

import (
	"bytes"
	"fmt"
	"io"
	"math"
	"net/url"
	"reflect"
	"sort"
	"strings"
	"time"

	"github.com/go-faster/jx"

	"verifharness/internal/jsonv"
)

// Snap converts a value of generated types into a canonical tree:
//
//	struct        -> *SStruct{Type, Fields}
//	Opt/Nil/OptNil-> *SOpt{State: unset|null|set, Value}
//	slice/array   -> []any   (nil and empty are the same)
//	map           -> map[string]any (nil and empty are the same)
//	pointer       -> nil or the element
//	interface     -> *SIface{Type, Value}
//	io.Reader     -> []byte of its whole content (re-readable readers are rewound)
//	time.Time, url.URL(string), jx.Raw(canonical JSON), numbers, strings, bools -> leaves
type SStruct struct {
	Type   string
	Fields map[string]any
	Order  []string
}
type SOpt struct {
	State string
	Value any
}
type SIface struct {
	Type  string
	Value any
}
type SRaw struct{ Canon string }
type STime struct{ T time.Time }

func Snap(v any) any { return snap(reflect.ValueOf(v), 0) }

func SnapValue(v reflect.Value) any { return snap(v, 0) }

func snap(v reflect.Value, depth int) any {
	if !v.IsValid() {
		return nil
	}
	if depth > 60 {
		return "<too deep>"
	}
	t := v.Type()
	if t.Kind() == reflect.Struct && t.PkgPath() != "" {
		for _, std := range []reflect.Type{tURL, tTime, tAddr} {
			if t != std && sameShape(t, std) && t.ConvertibleTo(std) {
				return snap(v.Convert(std), depth)
			}
		}
	}
	switch t {
	case tTime:
		return STime{v.Interface().(time.Time)}
	case tURL:
		u := v.Interface().(url.URL)
		return "url:" + u.String()
	case tRaw:
		raw := v.Interface().(jx.Raw)
		if pv, err := jsonv.Parse([]byte(raw)); err == nil {
			return SRaw{string(jsonv.Canonical(pv))}
		}
		return SRaw{"invalid:" + string(raw)}
	case tBytes:
		return append([]byte{}, v.Bytes()...)
	}
	switch v.Kind() {
	case reflect.Interface:
		if v.IsNil() {
			return nil
		}
		e := v.Elem()
		if rd, ok := e.Interface().(io.Reader); ok && t == tReader {
			return readAll(rd)
		}
		if t == tReader {
			return readAll(e.Interface().(io.Reader))
		}
		// the dynamic type of struct implementers is kept in SStruct.Type; wrap only other kinds
		k := e.Kind()
		if k == reflect.Struct || (k == reflect.Pointer && e.Type().Elem().Kind() == reflect.Struct) {
			return snap(e, depth+1)
		}
		return &SIface{Type: e.Type().String(), Value: snap(e, depth+1)}
	case reflect.Pointer:
		if v.IsNil() {
			return nil
		}
		if rd, ok := v.Interface().(*bytes.Reader); ok {
			return readAll(rd)
		}
		return snap(v.Elem(), depth+1)
	case reflect.Struct:
		switch OptKind(t) {
		case "opt":
			if !v.FieldByName("Set").Bool() {
				return &SOpt{State: "unset"}
			}
			return &SOpt{State: "set", Value: snap(v.FieldByName("Value"), depth+1)}
		case "nil":
			if v.FieldByName("Null").Bool() {
				return &SOpt{State: "null"}
			}
			return &SOpt{State: "set", Value: snap(v.FieldByName("Value"), depth+1)}
		case "optnil":
			switch {
			case !v.FieldByName("Set").Bool():
				return &SOpt{State: "unset"}
			case v.FieldByName("Null").Bool():
				return &SOpt{State: "null"}
			}
			return &SOpt{State: "set", Value: snap(v.FieldByName("Value"), depth+1)}
		}
		s := &SStruct{Type: t.String(), Fields: map[string]any{}}
		if IsSum(t) {
			// only the selected variant matters
			typ := v.FieldByName("Type").String()
			s.Fields["Type"] = typ
			s.Order = append(s.Order, "Type")
			for i := 0; i < t.NumField(); i++ {
				f := t.Field(i)
				if f.Name == "Type" || !f.IsExported() {
					continue
				}
				is := v.MethodByName("Is" + f.Name) // value receiver in generated code
				if !is.IsValid() {
					pv := reflect.New(t)
					pv.Elem().Set(v)
					is = pv.MethodByName("Is" + f.Name)
				}
				if is.IsValid() && is.Type().NumIn() == 0 && is.Type().NumOut() == 1 {
					if !is.Call(nil)[0].Bool() {
						continue
					}
				}
				s.Fields[f.Name] = snap(v.Field(i), depth+1)
				s.Order = append(s.Order, f.Name)
			}
			return s
		}
		for i := 0; i < t.NumField(); i++ {
			f := t.Field(i)
			if !f.IsExported() {
				continue
			}
			s.Fields[f.Name] = snap(v.Field(i), depth+1)
			s.Order = append(s.Order, f.Name)
		}
		return s
	case reflect.Slice, reflect.Array:
		if v.Kind() == reflect.Slice && v.IsNil() {
			return []any(nil)
		}
		out := make([]any, 0, v.Len())
		for i := 0; i < v.Len(); i++ {
			out = append(out, snap(v.Index(i), depth+1))
		}
		return out
	case reflect.Map:
		out := map[string]any{}
		it := v.MapRange()
		for it.Next() {
			out[fmt.Sprint(it.Key().Interface())] = snap(it.Value(), depth+1)
		}
		return out
	case reflect.String:
		return v.String()
	case reflect.Bool:
		return v.Bool()
	case reflect.Int, reflect.Int8, reflect.Int16, reflect.Int32, reflect.Int64:
		return v.Int()
	case reflect.Uint, reflect.Uint8, reflect.Uint16, reflect.Uint32, reflect.Uint64:
		return v.Uint()
	case reflect.Float32, reflect.Float64:
		return v.Float()
	}
	return fmt.Sprintf("<%s>", t)
}

func readAll(r io.Reader) []byte {
	if s, ok := r.(io.Seeker); ok {
		s.Seek(0, io.SeekStart)
		defer s.Seek(0, io.SeekStart)
	}
	b, _ := io.ReadAll(io.LimitReader(r, 64<<20))
	if b == nil {
		b = []byte{}
	}
	return b
}

// DiffOptions tune the comparison.
type DiffOptions struct {
	// AllowDefaults: an unset optional on the sent side may arrive set (schema default applied
	// on the receiving side); the arrivals are returned in Defaults for the caller to judge.
	AllowDefaults bool
	Defaults      *[]string
	// SliceLenient: nil and empty slices are interchangeable in both directions (parameters).
	SliceLenient bool
	// IgnoreFields: struct field names not compared (e.g. multipart file Header/Size set by the server)
	IgnoreFields map[string]bool
}

// Diff returns "" when got equals sent under the leaf rules, else a description of the first difference.
func Diff(sent, got any, o *DiffOptions) string {
	if o == nil {
		o = &DiffOptions{}
	}
	return diff("", sent, got, o)
}

func timeEq(s, g time.Time) bool {
	if s.Equal(g) {
		return true
	}
	su := s.UTC()
	// date projection
	if g.Equal(time.Date(su.Year(), su.Month(), su.Day(), 0, 0, 0, 0, time.UTC)) {
		return true
	}
	// time-of-day projection (date part zero)
	gu := g.UTC()
	for _, c := range []time.Time{su, s} { // clock reading in UTC or in the value's own zone
		if gu.Year() <= 1 && gu.Hour() == c.Hour() && gu.Minute() == c.Minute() && (gu.Second() == c.Second() || gu.Second() == 0) {
			return true
		}
	}
	// whole-second / milli / micro projections of a sub-second instant
	for _, d := range []time.Duration{time.Second, time.Millisecond, time.Microsecond, time.Minute} {
		if g.Equal(s.Truncate(d)) {
			return true
		}
	}
	// date in the value's own zone
	if y, m, d := s.Date(); g.Equal(time.Date(y, m, d, 0, 0, 0, 0, time.UTC)) {
		return true
	}
	return false
}

func diff(path string, s, g any, o *DiffOptions) string {
	if s == nil && g == nil {
		return ""
	}
	switch sv := s.(type) {
	case *SOpt:
		gv, ok := g.(*SOpt)
		if !ok {
			return fmt.Sprintf("%s: sent %s, got %s", path, descr(s), descr(g))
		}
		if sv.State != gv.State {
			if o.SliceLenient && ((sv.State == "unset" && gv.State == "set" && emptyObject(gv.Value)) || (gv.State == "unset" && sv.State == "set" && emptyObject(sv.Value))) {
				// the style table cannot tell a member-less object from an absent parameter
				return ""
			}
			if o.AllowDefaults && sv.State == "unset" && gv.State == "set" {
				if o.Defaults != nil {
					*o.Defaults = append(*o.Defaults, fmt.Sprintf("%s=%s", path, descr(gv.Value)))
				}
				return ""
			}
			return fmt.Sprintf("%s: sent %s, got %s", path, descr(s), descr(g))
		}
		if sv.State == "set" {
			return diff(path, sv.Value, gv.Value, o)
		}
		return ""
	case *SStruct:
		gv, ok := g.(*SStruct)
		if !ok || gv.Type != sv.Type {
			return fmt.Sprintf("%s: sent %s, got %s", path, descr(s), descr(g))
		}
		for _, f := range sv.Order {
			if o.IgnoreFields[f] {
				continue
			}
			gf, ok := gv.Fields[f]
			if !ok {
				return fmt.Sprintf("%s.%s: present in sent %s, missing in received (variant changed?)", path, f, sv.Type)
			}
			if d := diff(path+"."+f, sv.Fields[f], gf, o); d != "" {
				return d
			}
		}
		for _, f := range gv.Order {
			if _, ok := sv.Fields[f]; !ok && !o.IgnoreFields[f] {
				return fmt.Sprintf("%s.%s: present in received %s only", path, f, gv.Type)
			}
		}
		return ""
	case *SIface:
		gv, ok := g.(*SIface)
		if !ok || gv.Type != sv.Type {
			return fmt.Sprintf("%s: sent variant %s, got %s", path, descr(s), descr(g))
		}
		return diff(path, sv.Value, gv.Value, o)
	case []any:
		gv, ok := g.([]any)
		if !ok {
			if g == nil && len(sv) == 0 && (sv == nil || o.SliceLenient) {
				return ""
			}
			return fmt.Sprintf("%s: sent %s, got %s", path, descr(s), descr(g))
		}
		if o.SliceLenient && len(sv)+len(gv) == 1 {
			// the style table cannot tell an empty array from [""] (nor from an absent parameter)
			one := append(append([]any{}, sv...), gv...)
			if str, ok := one[0].(string); ok && str == "" {
				return ""
			}
		}
		if len(sv) != len(gv) {
			return fmt.Sprintf("%s: sent %d items %s, got %d items %s", path, len(sv), descr(s), len(gv), descr(g))
		}
		if sv != nil && gv == nil && !o.SliceLenient {
			// an empty (present) array must not turn into an absent one; nil -> [] is a tolerated normalisation
			return fmt.Sprintf("%s: sent an empty array, got nil (absent)", path)
		}
		for i := range sv {
			if d := diff(fmt.Sprintf("%s[%d]", path, i), sv[i], gv[i], o); d != "" {
				return d
			}
		}
		return ""
	case map[string]any:
		gv, ok := g.(map[string]any)
		if !ok {
			if g == nil && len(sv) == 0 {
				return ""
			}
			return fmt.Sprintf("%s: sent %s, got %s", path, descr(s), descr(g))
		}
		if len(sv) != len(gv) {
			return fmt.Sprintf("%s: sent %d entries %s, got %d entries %s", path, len(sv), descr(s), len(gv), descr(g))
		}
		for k, x := range sv {
			y, ok := gv[k]
			if !ok {
				return fmt.Sprintf("%s[%q]: missing in received %s", path, k, descr(g))
			}
			if d := diff(fmt.Sprintf("%s[%q]", path, k), x, y, o); d != "" {
				return d
			}
		}
		return ""
	case STime:
		gv, ok := g.(STime)
		if !ok || !timeEq(sv.T, gv.T) {
			return fmt.Sprintf("%s: sent %s, got %s", path, descr(s), descr(g))
		}
		return ""
	case []byte:
		gv, ok := g.([]byte)
		if !ok || !bytes.Equal(sv, gv) {
			return fmt.Sprintf("%s: sent %s, got %s", path, descr(s), descr(g))
		}
		return ""
	case float64:
		gv, ok := g.(float64)
		if !ok || !(sv == gv || (math.IsNaN(sv) && math.IsNaN(gv))) {
			return fmt.Sprintf("%s: sent %s, got %s", path, descr(s), descr(g))
		}
		return ""
	}
	if s == nil {
		// nil pointer / empty collections
		switch gv := g.(type) {
		case []any:
			if len(gv) == 0 {
				return ""
			}
		case map[string]any:
			if len(gv) == 0 {
				return ""
			}
		}
		return fmt.Sprintf("%s: sent nil, got %s", path, descr(g))
	}
	if !reflect.DeepEqual(s, g) {
		return fmt.Sprintf("%s: sent %s, got %s", path, descr(s), descr(g))
	}
	return ""
}

// Descr renders a snapshot compactly for witnesses.
func Descr(x any) string { return descr(x) }

func descr(x any) string {
	var b strings.Builder
	descrTo(&b, x, 0)
	s := b.String()
	if len(s) > 600 {
		s = s[:600] + "…"
	}
	return s
}

func descrTo(b *strings.Builder, x any, depth int) {
	if b.Len() > 700 {
		return
	}
	switch v := x.(type) {
	case nil:
		b.WriteString("nil")
	case *SOpt:
		if v.State != "set" {
			b.WriteString("<" + v.State + ">")
			return
		}
		b.WriteString("set(")
		descrTo(b, v.Value, depth+1)
		b.WriteString(")")
	case *SStruct:
		b.WriteString(v.Type[strings.LastIndex(v.Type, ".")+1:] + "{")
		for i, f := range v.Order {
			if i > 0 {
				b.WriteString(", ")
			}
			b.WriteString(f + ":")
			descrTo(b, v.Fields[f], depth+1)
		}
		b.WriteString("}")
	case *SIface:
		b.WriteString("(" + v.Type[strings.LastIndex(v.Type, ".")+1:] + ")")
		descrTo(b, v.Value, depth+1)
	case []any:
		b.WriteString("[")
		for i, e := range v {
			if i > 0 {
				b.WriteString(", ")
			}
			descrTo(b, e, depth+1)
		}
		b.WriteString("]")
	case map[string]any:
		keys := make([]string, 0, len(v))
		for k := range v {
			keys = append(keys, k)
		}
		sort.Strings(keys)
		b.WriteString("map{")
		for i, k := range keys {
			if i > 0 {
				b.WriteString(", ")
			}
			fmt.Fprintf(b, "%q:", k)
			descrTo(b, v[k], depth+1)
		}
		b.WriteString("}")
	case STime:
		b.WriteString(v.T.Format(time.RFC3339Nano))
	case SRaw:
		b.WriteString("raw:" + v.Canon)
	case []byte:
		if len(v) > 24 {
			fmt.Fprintf(b, "bytes[%d]:%x…", len(v), v[:24])
		} else {
			fmt.Fprintf(b, "bytes[%d]:%x", len(v), v)
		}
	case string:
		fmt.Fprintf(b, "%q", v)
	case float64:
		fmt.Fprintf(b, "%v(bits %x)", v, math.Float64bits(v))
	default:
		fmt.Fprintf(b, "%v", v)
	}
}

// emptyObject: a struct snapshot whose members are all unset / empty, or an empty collection.
func emptyObject(x any) bool {
	switch v := x.(type) {
	case *SStruct:
		for _, f := range v.Order {
			switch fv := v.Fields[f].(type) {
			case *SOpt:
				if fv.State != "unset" {
					return false
				}
			case []any:
				if len(fv) != 0 {
					return false
				}
			case map[string]any:
				if len(fv) != 0 {
					return false
				}
			default:
				return false
			}
		}
		return true
	case map[string]any:
		return len(v) == 0
	case []any:
		return len(v) == 0
	}
	return false
}
