package servlab

import (
	"bytes"
	"fmt"
	"io"
	"math"
	"net"
	"net/netip"
	"net/textproto"
	"net/url"
	"reflect"
	"strings"
	"time"

	"github.com/go-faster/jx"
	"github.com/google/uuid"

	ht "github.com/ogen-go/ogen/http"

	"verifharness/internal/ev"
)

// Builder constructs values of generated types by reflection.
type Builder struct {
	Pkg      *Package
	Rng      *ev.Rand
	Hostile  bool // false = core domain
	Tame     bool // small friendly values (used when Validate keeps rejecting)
	MaxDepth int
	UniqueID string // when set, every string leaf embeds it (isolation checks)
	NonEmpty bool   // core mode: arrays have at least one item (parameters)
	// PartHeader, when set, is used (the same map, not a copy) as the custom header of every multipart file
	// built: callers may share one read-only header map between uploads
	PartHeader textproto.MIMEHeader
	// Big > 0: the next string leaf built is Big bytes long (then Big is cleared): one large member per value, for the
	// size limits a body reader may apply
	Big int
}

var (
	tTime     = reflect.TypeOf(time.Time{})
	tDuration = reflect.TypeOf(time.Duration(0))
	tURL      = reflect.TypeOf(url.URL{})
	tUUID     = reflect.TypeOf(uuid.UUID{})
	tAddr     = reflect.TypeOf(netip.Addr{})
	tIP       = reflect.TypeOf(net.IP{})
	tMAC      = reflect.TypeOf(net.HardwareAddr{})
	tRaw      = reflect.TypeOf(jx.Raw{})
	tReader   = reflect.TypeOf((*io.Reader)(nil)).Elem()
	tMPFile   = reflect.TypeOf(ht.MultipartFile{})
	tBytes    = reflect.TypeOf([]byte{})
	tError    = reflect.TypeOf((*error)(nil)).Elem()
)

// OptKind classifies generated wrapper structs.
func OptKind(t reflect.Type) string {
	if t.Kind() != reflect.Struct {
		return ""
	}
	has := func(n string, k reflect.Kind) bool {
		f, ok := t.FieldByName(n)
		return ok && (k == reflect.Invalid || f.Type.Kind() == k)
	}
	switch {
	case t.NumField() == 3 && has("Value", reflect.Invalid) && has("Set", reflect.Bool) && has("Null", reflect.Bool):
		return "optnil"
	case t.NumField() == 2 && has("Value", reflect.Invalid) && has("Set", reflect.Bool):
		return "opt"
	case t.NumField() == 2 && has("Value", reflect.Invalid) && has("Null", reflect.Bool):
		return "nil"
	}
	return ""
}

// IsSum reports generated sum types (struct with a Type discriminator field and SetX methods).
func IsSum(t reflect.Type) bool {
	if t.Kind() != reflect.Struct || t.NumField() < 2 {
		return false
	}
	f, ok := t.FieldByName("Type")
	if !ok || f.Type.Kind() != reflect.String || !strings.HasSuffix(f.Type.Name(), "Type") {
		return false
	}
	return len(sumSetters(t)) > 0
}

func sumSetters(t reflect.Type) []reflect.Method {
	pt := reflect.PointerTo(t)
	var out []reflect.Method
	for i := 0; i < pt.NumMethod(); i++ {
		m := pt.Method(i)
		if strings.HasPrefix(m.Name, "Set") && m.Type.NumIn() == 2 && m.Type.NumOut() == 0 {
			// setter of a variant: there is a matching IsX
			if _, ok := pt.MethodByName("Is" + strings.TrimPrefix(m.Name, "Set")); ok {
				out = append(out, m)
			}
		}
	}
	return out
}

func enumValues(t reflect.Type) []reflect.Value {
	m, ok := t.MethodByName("AllValues")
	if !ok || m.Type.NumIn() != 1 || m.Type.NumOut() != 1 || m.Type.Out(0).Kind() != reflect.Slice {
		return nil
	}
	out := m.Func.Call([]reflect.Value{reflect.Zero(t)})[0]
	var vs []reflect.Value
	for i := 0; i < out.Len(); i++ {
		vs = append(vs, out.Index(i))
	}
	return vs
}

const coreAlphabet = "abcdefghijklmnopqrstuvwxyzABCDEFGHIJKLMNOPQRSTUVWXYZ0123456789_-"

func (b *Builder) str() string {
	r := b.Rng
	if b.Big > 0 {
		n := b.Big
		b.Big = 0
		return strings.Repeat("d", n)
	}
	var s string
	switch {
	case b.Tame:
		n := 3 + r.Intn(5)
		var sb strings.Builder
		for i := 0; i < n; i++ {
			sb.WriteByte("abcdefghijklmnopqrstuvwxyz"[r.Intn(26)])
		}
		s = sb.String()
	case !b.Hostile:
		n := 1 + r.Intn(10)
		var sb strings.Builder
		for i := 0; i < n; i++ {
			if r.Intn(12) == 0 {
				sb.WriteString(ev.Pick(r, []string{"é", "ß", "日本", "Ж", "😀", "ñ"}))
			} else {
				sb.WriteByte(coreAlphabet[r.Intn(len(coreAlphabet))])
			}
		}
		s = sb.String()
	default:
		n := r.Intn(8)
		var sb strings.Builder
		for i := 0; i < n; i++ {
			switch r.Intn(6) {
			case 0:
				sb.WriteString(ev.Pick(r, []string{",", ".", ";", "=", "|", " ", "%", "/", "&", "+", "?", "#", "\"", "\\", "'", "<", ">", "{", "}", "[", "]", ":", "@", "~", "*", "!", "$", "(", ")"}))
			case 1:
				sb.WriteString(ev.Pick(r, []string{"\n", "\t", "\r", "\x01", "\x7f", "\u2028", "\u00a0", "é", "😀", "%2F", "%zz", "a b", "null", "true", "1e3", "-0", "../", "\ufeff"}))
			default:
				sb.WriteByte(coreAlphabet[r.Intn(len(coreAlphabet))])
			}
		}
		s = sb.String()
	}
	if b.UniqueID != "" {
		s = b.UniqueID + s
	}
	return s
}

func (b *Builder) int64In(bits int, unsigned bool) int64 {
	r := b.Rng
	if b.Tame {
		return int64(1 + r.Intn(9))
	}
	var lo, hi int64
	if unsigned {
		lo = 0
		if bits >= 63 {
			hi = math.MaxInt64
		} else {
			hi = int64(1)<<uint(bits) - 1
		}
	} else {
		if bits >= 64 {
			lo, hi = math.MinInt64, math.MaxInt64
		} else {
			lo, hi = -(int64(1) << uint(bits-1)), int64(1)<<uint(bits-1)-1
		}
	}
	switch r.Intn(8) {
	case 0:
		return 0
	case 1:
		return 1
	case 2:
		if unsigned {
			return 2
		}
		return -1
	case 3:
		return hi
	case 4:
		return lo
	case 5:
		return int64(r.Intn(1000))
	default:
		v := r.Int63()
		if !unsigned && r.Bool() {
			v = -v
		}
		if bits < 64 {
			span := hi - lo + 1
			v = lo + ((v%span)+span)%span
		}
		if unsigned && v < 0 {
			v = -v
		}
		return v
	}
}

func (b *Builder) float(bits int) float64 {
	r := b.Rng
	if b.Tame {
		return float64(1+r.Intn(9)) + 0.5
	}
	var f float64
	switch r.Intn(9) {
	case 0:
		f = 0
	case 1:
		f = 1.5
	case 2:
		f = -0.25
	case 3:
		f = ev.Pick(r, []float64{0.1, 0.3, 1.0 / 3, 1e-11, 5e-324, 2.2250738585072014e-308, 1.7976931348623157e308, 9007199254740993, 1e21, 1e-7, 123456.789, 0.12345678901234567, -2101545922020408.2, 123456789012345.67})
	case 4:
		f = float64(r.Intn(2000) - 1000)
	case 5:
		f = math.Ldexp(float64(r.Intn(1<<20)), -r.Intn(40))
	default:
		for {
			f = math.Float64frombits(r.Uint64())
			if !math.IsNaN(f) && !math.IsInf(f, 0) {
				break
			}
		}
	}
	if bits == 32 {
		g := float64(float32(f))
		if math.IsInf(g, 0) || math.IsNaN(g) {
			g = float64(float32(1.5))
		}
		f = g
	}
	return f
}

func (b *Builder) instant() time.Time {
	r := b.Rng
	// years 1971..2090, whole seconds, UTC (the core domain); hostile adds sub-second parts and zones
	sec := int64(31536000) + int64(r.Intn(120*365*86400))
	t := time.Unix(sec, 0).UTC()
	if b.Hostile && !b.Tame {
		switch r.Intn(4) {
		case 0:
			t = t.Add(time.Duration(r.Intn(1e9)))
		case 1:
			t = t.In(time.FixedZone("", (r.Intn(25)-12)*3600))
		}
	}
	return t
}

// Value builds a value of type t.
func (b *Builder) Value(t reflect.Type, depth int) reflect.Value {
	r := b.Rng
	if b.MaxDepth == 0 {
		b.MaxDepth = 5
	}
	// named types defined over a well-known struct or array type (type AlertHTMLURL url.URL): built as that type
	if k := t.Kind(); (k == reflect.Struct || k == reflect.Array) && t.PkgPath() != "" {
		for _, std := range []reflect.Type{tURL, tTime, tAddr} {
			if t != std && sameShape(t, std) && t.ConvertibleTo(std) && std.ConvertibleTo(t) {
				return b.Value(std, depth).Convert(t)
			}
		}
	}
	// well-known leaves first
	switch t {
	case tTime:
		return reflect.ValueOf(b.instant())
	case tDuration:
		if b.Tame || !b.Hostile {
			return reflect.ValueOf(time.Duration(r.Intn(100000)) * time.Second)
		}
		return reflect.ValueOf(time.Duration(b.int64In(64, false)))
	case tURL:
		u, _ := url.Parse(ev.Pick(r, []string{"https://example.com/p/a?b=c", "http://localhost:8080/x", "https://example.org/", "https://user@example.com/a%20b?q=1&r=2#frag", "ftp://h/p"}))
		return reflect.ValueOf(*u)
	case tUUID:
		var u uuid.UUID
		for i := range u {
			u[i] = byte(r.Intn(256))
		}
		return reflect.ValueOf(u)
	case tAddr:
		if r.Bool() {
			return reflect.ValueOf(netip.AddrFrom4([4]byte{byte(r.Intn(256)), byte(r.Intn(256)), byte(r.Intn(256)), byte(r.Intn(256))}))
		}
		var a [16]byte
		for i := range a {
			a[i] = byte(r.Intn(256))
		}
		a[0] = 0x20
		return reflect.ValueOf(netip.AddrFrom16(a))
	case tIP:
		return reflect.ValueOf(net.IPv4(byte(r.Intn(256)), byte(r.Intn(256)), byte(r.Intn(256)), byte(r.Intn(256))))
	case tMAC:
		m := make(net.HardwareAddr, 6)
		for i := range m {
			m[i] = byte(r.Intn(256))
		}
		return reflect.ValueOf(m)
	case tRaw:
		return reflect.ValueOf(jx.Raw(ev.Pick(r, []string{`1`, `"s"`, `true`, `null`, `{"a":1,"b":[1,2,{"c":null}]}`, `[1,"x",false]`, `1.5e3`, `{}`, `[]`, `"é"`})))
	case tMPFile:
		data := make([]byte, r.Intn(300))
		for i := range data {
			data[i] = byte(r.Intn(256))
		}
		name := "f" + fmt.Sprint(r.Intn(1000)) + ".bin"
		if b.UniqueID != "" {
			name = b.UniqueID + name
		}
		return reflect.ValueOf(ht.MultipartFile{Name: name, File: bytes.NewReader(data), Size: int64(len(data)), Header: b.PartHeader})
	case tBytes:
		n := r.Intn(40)
		if n == 0 && b.NonEmpty {
			n = 1
		}
		data := make([]byte, n)
		for i := range data {
			if b.Hostile {
				data[i] = byte(r.Intn(256))
			} else {
				// core domain: []byte is also what an array of uint8 becomes; letters and digits travel in every location
				data[i] = asciiAlnumBytes[r.Intn(len(asciiAlnumBytes))]
			}
		}
		return reflect.ValueOf(data)
	}
	if t.Kind() == reflect.Interface {
		if t == tReader {
			data := make([]byte, r.Intn(600))
			for i := range data {
				data[i] = byte(r.Intn(256))
			}
			return reflect.ValueOf(bytes.NewReader(data)).Convert(reflect.TypeOf((*bytes.Reader)(nil)))
		}
		if t == tError || b.Pkg == nil {
			return reflect.Zero(t)
		}
		impls := b.Pkg.Implementers(t)
		if len(impls) == 0 {
			return reflect.Zero(t)
		}
		it := impls[r.Intn(len(impls))]
		v := b.Value(it, depth+1)
		out := reflect.New(t).Elem()
		out.Set(v)
		return out
	}
	if evs := enumValues(t); len(evs) > 0 {
		return evs[r.Intn(len(evs))]
	}
	switch t.Kind() {
	case reflect.String:
		return reflect.ValueOf(b.str()).Convert(t)
	case reflect.Bool:
		return reflect.ValueOf(r.Bool()).Convert(t)
	case reflect.Int, reflect.Int64:
		return reflect.ValueOf(b.int64In(64, false)).Convert(t)
	case reflect.Int8:
		return reflect.ValueOf(b.int64In(8, false)).Convert(t)
	case reflect.Int16:
		return reflect.ValueOf(b.int64In(16, false)).Convert(t)
	case reflect.Int32:
		return reflect.ValueOf(b.int64In(32, false)).Convert(t)
	case reflect.Uint8:
		return reflect.ValueOf(uint64(b.int64In(8, true))).Convert(t)
	case reflect.Uint16:
		return reflect.ValueOf(uint64(b.int64In(16, true))).Convert(t)
	case reflect.Uint32:
		return reflect.ValueOf(uint64(b.int64In(32, true))).Convert(t)
	case reflect.Uint, reflect.Uint64:
		v := uint64(b.int64In(63, true))
		if !b.Tame && r.Intn(10) == 0 {
			v = math.MaxUint64
		}
		return reflect.ValueOf(v).Convert(t)
	case reflect.Float32:
		return reflect.ValueOf(float32(b.float(32))).Convert(t)
	case reflect.Float64:
		return reflect.ValueOf(b.float(64)).Convert(t)
	case reflect.Pointer:
		if depth >= b.MaxDepth {
			return reflect.Zero(t)
		}
		p := reflect.New(t.Elem())
		p.Elem().Set(b.Value(t.Elem(), depth+1))
		return p
	case reflect.Slice:
		n := 0
		if depth < b.MaxDepth {
			n = []int{0, 1, 1, 2, 3}[r.Intn(5)]
			if b.Tame {
				n = 1 + r.Intn(2)
			}
			if !b.Hostile && n == 0 && b.NonEmpty {
				n = 1 // core domain of parameters: an empty array has no serialization of its own
			}
		}
		s := reflect.MakeSlice(t, 0, n)
		for i := 0; i < n; i++ {
			s = reflect.Append(s, b.Value(t.Elem(), depth+1))
		}
		return s
	case reflect.Array:
		a := reflect.New(t).Elem()
		for i := 0; i < t.Len(); i++ {
			a.Index(i).Set(b.Value(t.Elem(), depth+1))
		}
		return a
	case reflect.Map:
		m := reflect.MakeMap(t)
		if b.keyConstrained(t) {
			return m
		}
		n := 0
		if depth < b.MaxDepth {
			n = r.Intn(3)
			if b.Tame {
				n = 1
			}
		}
		for i := 0; i < n; i++ {
			k := reflect.ValueOf(fmt.Sprintf("zk9%d%s", i, strings.Map(func(c rune) rune {
				if c < 128 && (c >= 'a' && c <= 'z' || c >= '0' && c <= '9') {
					return c
				}
				return -1
			}, b.str()))).Convert(t.Key())
			m.SetMapIndex(k, b.Value(t.Elem(), depth+1))
		}
		return m
	case reflect.Struct:
		v := reflect.New(t).Elem()
		switch OptKind(t) {
		case "opt":
			if r.Intn(3) > 0 || b.Tame {
				v.FieldByName("Set").SetBool(true)
				v.FieldByName("Value").Set(b.Value(v.FieldByName("Value").Type(), depth+1))
			}
			return v
		case "nil":
			if r.Intn(3) == 0 && !b.Tame {
				v.FieldByName("Null").SetBool(true)
			} else {
				v.FieldByName("Value").Set(b.Value(v.FieldByName("Value").Type(), depth+1))
			}
			return v
		case "optnil":
			switch x := r.Intn(4); {
			case x == 0 && !b.Tame:
			case x == 1 && !b.Tame:
				v.FieldByName("Set").SetBool(true)
				v.FieldByName("Null").SetBool(true)
			default:
				v.FieldByName("Set").SetBool(true)
				v.FieldByName("Value").Set(b.Value(v.FieldByName("Value").Type(), depth+1))
			}
			return v
		}
		if IsSum(t) {
			ss := sumSetters(t)
			m := ss[r.Intn(len(ss))]
			arg := b.Value(m.Type.In(1), depth+1)
			m.Func.Call([]reflect.Value{v.Addr(), arg})
			return v
		}
		for i := 0; i < t.NumField(); i++ {
			f := t.Field(i)
			if !f.IsExported() {
				continue
			}
			if f.Name == "StatusCode" && f.Type.Kind() == reflect.Int {
				continue // set by the driver from the spec's allowed set
			}
			if f.Name == "ContentType" && f.Type.Kind() == reflect.String {
				continue // set by the driver (wildcard media types)
			}
			if strings.HasPrefix(f.Name, "Pattern") && strings.HasSuffix(f.Name, "Props") {
				continue // patternProperties: keys must match a pattern the Go type does not reveal
			}
			v.Field(i).Set(b.Value(f.Type, depth+1))
		}
		if b.NonEmpty && !b.Hostile && depth > 0 && t.NumField() > 0 {
			// core domain of parameters: an object without members has no serialization of its own
			for try := 0; try < 8 && emptyObject(snap(v, 0)); try++ {
				for i := 0; i < t.NumField(); i++ {
					if t.Field(i).IsExported() {
						v.Field(i).Set(b.Value(t.Field(i).Type, depth+1))
					}
				}
			}
		}
		return v
	}
	return reflect.Zero(t)
}

// Validated builds a value that the generated Validate() accepts (when the type has one).
// ok=false when no attempt validated.
func (b *Builder) Validated(t reflect.Type, tries int) (reflect.Value, bool) {
	saveTame := b.Tame
	defer func() { b.Tame = saveTame }()
	for i := 0; i < tries; i++ {
		if i >= tries/2 {
			b.Tame = true
		}
		v := b.Value(t, 0)
		if ValidateValue(v) == nil {
			return v, true
		}
	}
	return reflect.Value{}, false
}

// ValidateValue calls the generated Validate() if the (addressable copy of the) value has one.
func ValidateValue(v reflect.Value) (err error) {
	defer func() {
		if p := recover(); p != nil {
			err = fmt.Errorf("Validate panicked: %v", p)
		}
	}()
	if !v.IsValid() {
		return nil
	}
	call := func(x reflect.Value) error {
		m := x.MethodByName("Validate")
		if !m.IsValid() || m.Type().NumIn() != 0 || m.Type().NumOut() != 1 {
			return nil
		}
		out := m.Call(nil)[0]
		if out.IsNil() {
			return nil
		}
		return out.Interface().(error)
	}
	if v.Kind() == reflect.Interface && !v.IsNil() {
		v = v.Elem()
	}
	if v.Kind() == reflect.Pointer {
		if v.IsNil() {
			return nil
		}
		return call(v)
	}
	p := reflect.New(v.Type())
	p.Elem().Set(v)
	if err := call(p); err != nil {
		return err
	}
	return nil
}

// keyConstrained probes a named map type with a JSON codec: if its own Decode drops a key its
// Encode wrote, the keys are constrained by a pattern the Go type does not reveal
// (patternProperties); such maps are built empty.
func (b *Builder) keyConstrained(t reflect.Type) bool {
	if t.Name() == "" || b.Pkg == nil {
		return false
	}
	b.Pkg.mu.Lock()
	if b.Pkg.constrained == nil {
		b.Pkg.constrained = map[reflect.Type]bool{}
	}
	v, ok := b.Pkg.constrained[t]
	b.Pkg.mu.Unlock()
	if ok {
		return v
	}
	res := false
	enc, dec, has := jsonCodec(t)
	if has {
		pb := &Builder{Pkg: nil, Rng: ev.NewRand(1, "probe", t.String()), Tame: true, MaxDepth: 2}
		m := reflect.MakeMap(t)
		m.SetMapIndex(reflect.ValueOf("zk9probe").Convert(t.Key()), pb.Value(t.Elem(), 1))
		if text, pan := encodeJSON(enc, m); pan == "" {
			if back, err, pan2 := decodeJSON(dec, t, text); pan2 == "" && (err != nil || back.Len() != 1) {
				res = true // key dropped, or rejected as unexpected (additionalProperties: false next to patternProperties)
			}
		}
	}
	b.Pkg.mu.Lock()
	b.Pkg.constrained[t] = res
	b.Pkg.mu.Unlock()
	return res
}

// sameShape: a struct type with the field names and types of std (a defined type over std), or an array of the
// same length and element type.
func sameShape(t, std reflect.Type) bool {
	if t.Kind() != reflect.Struct || std.Kind() != reflect.Struct {
		return false // a named [16]byte need not be a UUID
	}
	if t.NumField() != std.NumField() {
		return false
	}
	for i := 0; i < t.NumField(); i++ {
		if t.Field(i).Name != std.Field(i).Name || t.Field(i).Type != std.Field(i).Type {
			return false
		}
	}
	return true
}

const asciiAlnumBytes = "abcdefghijklmnopqrstuvwxyzABCDEFGHIJKLMNOPQRSTUVWXYZ0123456789"
