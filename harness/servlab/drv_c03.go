package servlab

import (
	"context"
	"encoding/json"
	"fmt"
	"math/big"
	"net/http"
	"net/http/httptest"
	"runtime"
	"strconv"
	"strings"
	"sync"

	"github.com/ogen-go/ogen/ogenerrors"

	"verifharness/internal/ev"
	"verifharness/internal/jsonv"
	"verifharness/internal/schemaref"
)

type C03Case struct {
	Body  string `json:"body"`
	Valid bool   `json:"valid"`
	Kind  string `json:"kind"` // valid | mutant:<kind> | random
	Why   string `json:"why,omitempty"`
	Tag   string `json:"tag,omitempty"` // required-undeclared: invalid only because a required name is not declared under properties
	// parameter part: the instance travels as a parameter instead of a body
	Target string            `json:"target,omitempty"` // request-target (path and query)
	Header map[string]string `json:"header,omitempty"`
}

type C03Family struct {
	SigPrefix string    `json:"sig_prefix,omitempty"` // replaces "schema/" in violation signatures (parameter part: "param/<location>/")
	Path      string    `json:"path"`
	Schema    string    `json:"schema"` // compact JSON of the root schema (for witnesses)
	Comps     string    `json:"components,omitempty"`
	Cases     []C03Case `json:"cases"`
	Tags      []string  `json:"tags,omitempty"` // recursive-sum
	// conformance part (C04): all components incl. the root, the same with undeclared required names dropped, root name
	Root       string `json:"root,omitempty"`
	All        string `json:"all_components,omitempty"`
	AllRelaxed string `json:"all_components_relaxed,omitempty"`
	AllNoCount string `json:"all_components_no_property_counts,omitempty"`
	AllBoth    string `json:"all_components_relaxed_no_property_counts,omitempty"`
}

type C03Spec struct {
	Key      string      `json:"key"`
	Families []C03Family `json:"families"`
}

type C03Data struct {
	Specs []C03Spec `json:"specs"`
	// Conformance: instead of posting instances, build Go values of the root types by reflection and
	// check their encoding against the source schema (C04's conformance clause on schema-known types)
	Conformance bool `json:"conformance,omitempty"`
	Values      int  `json:"values,omitempty"`
}

func init() { drivers["c03"] = runC03 }

type c03Disp struct {
	mu      sync.Mutex
	invoked []string
	errs    []string
}

func (d *c03Disp) Call(iface, method string, args []any) []any {
	if iface == "Handler" {
		d.mu.Lock()
		d.invoked = append(d.invoked, method)
		d.mu.Unlock()
	}
	return nil
}

func (d *c03Disp) errorHandler(ctx context.Context, w http.ResponseWriter, r *http.Request, err error) {
	d.mu.Lock()
	d.errs = append(d.errs, fmt.Sprintf("%T: %v", err, err))
	d.mu.Unlock()
	ogenerrors.DefaultErrorHandler(ctx, w, r, err)
}

func runC03(r *ev.Run, data json.RawMessage) error {
	var d C03Data
	if err := json.Unmarshal(data, &d); err != nil {
		return err
	}
	var firstErr error
	var emu sync.Mutex
	type job struct {
		spec *C03Spec
		fam  *C03Family
	}
	var jobs []job
	for i := range d.Specs {
		for j := range d.Specs[i].Families {
			jobs = append(jobs, job{&d.Specs[i], &d.Specs[i].Families[j]})
		}
	}
	ev.Parallel(len(jobs), runtime.NumCPU(), func(i int) {
		j := jobs[i]
		pkg := Lookup(j.spec.Key)
		if pkg == nil {
			emu.Lock()
			firstErr = fmt.Errorf("package %s not linked", j.spec.Key)
			emu.Unlock()
			return
		}
		if d.Conformance {
			c03Conformance(r, pkg, j.spec, j.fam, d.Values, i)
			return
		}
		disp := &c03Disp{}
		srv, err := pkg.NewServer(disp, ServerConfig{ErrorHandler: disp.errorHandler})
		if err != nil {
			emu.Lock()
			firstErr = err
			emu.Unlock()
			return
		}
		for ci, c := range j.fam.Cases {
			disp.mu.Lock()
			disp.invoked, disp.errs = nil, nil
			disp.mu.Unlock()
			var req *http.Request
			if c.Target != "" {
				req = httptest.NewRequest("GET", c.Target, nil)
				for k, v := range c.Header {
					req.Header.Set(k, v)
				}
			} else {
				req = httptest.NewRequest("POST", j.fam.Path, strings.NewReader(c.Body))
				req.Header.Set("Content-Type", "application/json")
			}
			w := httptest.NewRecorder()
			pan, txt := ev.Guard(func() { srv.ServeHTTP(w, req) })
			disp.mu.Lock()
			invoked := len(disp.invoked) > 0
			serr := strings.Join(disp.errs, " | ")
			disp.mu.Unlock()
			r.Eval(1)
			r.Distinct(j.spec.Key + j.fam.Path + "|" + c.Body)
			r.Count("cases_"+kindClass(c.Kind), 1)
			if c.Target != "" {
				r.Count("cases_sent_as_parameter", 1)
			}
			if c.Valid {
				r.Count("reference_valid", 1)
			} else {
				r.Count("reference_invalid", 1)
			}
			wit := map[string]any{"schema": clipS(j.fam.Schema, 20000), "components": clipS(j.fam.Comps, 20000), "instance": clipS(c.Body, 600), "instance_kind": c.Kind, "sent_as": map[string]any{"target": c.Target, "header": c.Header}, "reference_valid": c.Valid, "reference_reason": c.Why, "status": w.Code, "handler_invoked": invoked, "server_error": clipS(serr, 400)}
			viol := func(sig, msg string, w map[string]any) {
				if j.fam.SigPrefix != "" {
					sig = j.fam.SigPrefix + strings.TrimPrefix(sig, "schema/")
					msg = "[" + j.fam.SigPrefix + " parameter] " + msg
				}
				r.Violate(sig, msg, w)
			}
			switch {
			case pan:
				viol("schema/server-panic", fmt.Sprintf("ServeHTTP panicked on instance %s: %s", clipS(c.Body, 200), txt), wit)
			case c.Valid && (!invoked || w.Code < 200 || w.Code > 299) && strings.Contains(serr, "unable to detect sum type variant") && hasTag(j.fam.Tags, "recursive-sum"):
				viol("schema/recursive-sum-unique-fields-incomplete", fmt.Sprintf("valid instance of a recursive oneOf refused (status %d, unable to detect sum type variant): %s ; schema %s ; components %s", w.Code, clipS(c.Body, 200), clipS(j.fam.Schema, 200), clipS(j.fam.Comps, 400)), wit)
			case c.Valid && (!invoked || w.Code < 200 || w.Code > 299) && c.Tag == "null-for-propertyless-object":
				viol("schema/nullable-propertyless-object-refuses-null", fmt.Sprintf("null refused for a nullable object schema without properties (status %d): %s ; schema %s ; server: %s", w.Code, clipS(c.Body, 200), clipS(j.fam.Schema, 300), clipS(serr, 200)), wit)
			case c.Valid && (!invoked || w.Code < 200 || w.Code > 299) && c.Tag == "null-for-object-in-recursive-family" && strings.Contains(serr, "\"{\" expected"):
				viol("schema/nullable-object-near-recursion-refuses-null", fmt.Sprintf("null refused for a nullable object in a schema family with a recursive component (status %d): %s ; server: %s", w.Code, clipS(c.Body, 200), clipS(serr, 200)), wit)
			case c.Valid && (!invoked || w.Code < 200 || w.Code > 299):
				viol("schema/valid-refused:"+refuseClass(serr), fmt.Sprintf("valid instance refused (status %d): %s ; schema %s ; server: %s", w.Code, clipS(c.Body, 200), clipS(j.fam.Schema, 300), clipS(serr, 200)), wit)
			case !c.Valid && invoked && c.Tag == "required-undeclared":
				viol("schema/required-undeclared-property-not-enforced", fmt.Sprintf("instance lacking a required member that is not declared under properties reached the handler (reference: %s): %s ; schema %s", c.Why, clipS(c.Body, 200), clipS(j.fam.Schema, 300)), wit)
			case !c.Valid && invoked:
				viol("schema/invalid-accepted:"+mutClass(c.Kind, c.Why), fmt.Sprintf("invalid instance reached the handler (%s; reference: %s): %s ; schema %s", c.Kind, c.Why, clipS(c.Body, 200), clipS(j.fam.Schema, 300)), wit)
			case !c.Valid && w.Code != 400:
				viol("schema/invalid-not-400", fmt.Sprintf("invalid instance answered with status %d", w.Code), wit)
			}
			if i%40 == 0 && ci < 2 {
				r.Sample(wit)
			}
		}
		r.Count("schemas", 1)
	})
	return firstErr
}

func clipS(s string, n int) string {
	if len(s) > n {
		return s[:n] + "…"
	}
	return s
}

func kindClass(k string) string {
	if i := strings.IndexByte(k, ':'); i >= 0 {
		return k[:i]
	}
	return k
}

// mutClass: the keyword family of a mutant kind ("minimum/-1" -> "minimum").
func mutClass(kind, why string) string {
	k := strings.TrimPrefix(kind, "mutant:")
	if i := strings.IndexByte(k, '/'); i >= 0 {
		k = k[:i]
	}
	if i := strings.IndexByte(k, ':'); i >= 0 {
		k = k[:i]
	}
	if k == "random" || k == "" {
		// name by the reference's reason instead
		w := why
		if i := strings.IndexByte(w, ':'); i >= 0 {
			w = w[:i]
		}
		if len(w) > 30 {
			w = w[:30]
		}
		return "random/" + w
	}
	return k
}

func refuseClass(serr string) string {
	for _, k := range []string{"unable to detect sum type variant", "unexpected field", "invalid:", "required", "less than", "greater than", "multiple", "regex", "len ", "duplicate", "properties number", "items number", "unexpected byte", "unexpected EOF"} {
		if strings.Contains(serr, k) {
			return strings.ReplaceAll(strings.TrimSuffix(k, ":"), " ", "-")
		}
	}
	return "other"
}

func hasTag(tags []string, t string) bool {
	for _, x := range tags {
		if x == t {
			return true
		}
	}
	return false
}

func parseComps(txt string) map[string]*jsonv.Value {
	out := map[string]*jsonv.Value{}
	v, err := jsonv.Parse([]byte(txt))
	if err != nil || v.Kind != jsonv.Object {
		return out
	}
	for _, m := range v.Members {
		out[m.Name] = m.Value
	}
	return out
}

// c03Conformance: every value of the root type that passes the generated Validate() must encode to
// JSON that is valid against the source schema (decided by the reference validator).
func c03Conformance(r *ev.Run, pkg *Package, spec *C03Spec, fam *C03Family, values, idx int) {
	t := pkg.Type(fam.Root)
	if t == nil {
		r.Count("conformance_root_type_not_found", 1)
		return
	}
	enc, _, ok := jsonCodec(t)
	if !ok {
		r.Count("conformance_root_without_codec", 1)
		return
	}
	comps := parseComps(fam.All)
	relaxed := parseComps(fam.AllRelaxed)
	root := comps[fam.Root]
	if root == nil {
		return
	}
	res, rres := schemaref.MapResolver(comps), schemaref.MapResolver(relaxed)
	rng := r.Rand("c04conf", spec.Key, fam.Root)
	built := 0
	for k := 0; k < values; k++ {
		b := &Builder{Pkg: pkg, Rng: rng, Hostile: k%2 == 1, MaxDepth: 3 + k%3}
		v, ok := b.Validated(t, 10)
		if !ok {
			r.Count("values_rejected_by_own_validate", 1)
			continue
		}
		text, pan := encodeJSON(enc, v)
		if pan != "" {
			r.Violate("json/encode-panic", fmt.Sprintf("schema-known type %s: Encode panicked: %s", fam.Root, pan), map[string]any{"schema": clipS(fam.Schema, 4000)})
			continue
		}
		inst, err := jsonv.Parse(text)
		if err != nil {
			r.Violate("json/malformed-output", fmt.Sprintf("schema-known type %s: Encode wrote malformed JSON: %v", fam.Root, err), map[string]any{"json": clip(text)})
			continue
		}
		built++
		r.Eval(1)
		r.Distinct("conf|" + spec.Key + fam.Root + "|" + string(text))
		if !schemaref.Decidable(root, inst, res) || hasInexactBigInteger(inst) {
			// includes numbers whose shortest decimal text is not the exact binary64 value: the generated
			// validator works on the float, the reference on the text
			r.Count("conformance_outside_deciding_domain", 1)
			continue
		}
		okv, why := schemaref.Validate(root, inst, res)
		if okv {
			r.Count("conformance_encodings_valid", 1)
			if idx%50 == 0 && k == 0 {
				r.Sample(map[string]any{"schema": clipS(fam.Schema, 600), "validated_go_value_encodes_to": clip(text), "reference": "valid"})
			}
			continue
		}
		wit := map[string]any{"schema": clipS(fam.Schema, 20000), "components": clipS(fam.Comps, 20000), "go_value": Descr(SnapValue(v)), "encoding": clip(text), "reference_reason": why}
		// name the two known gaps by re-validating against schemas with exactly that keyword relaxed
		validUnder := func(txt string) bool {
			c := parseComps(txt)
			if c[fam.Root] == nil {
				return false
			}
			ok2, _ := schemaref.Validate(c[fam.Root], inst, schemaref.MapResolver(c))
			return ok2
		}
		_ = rres
		switch {
		case validUnder(fam.AllRelaxed):
			r.Violate("json/conformance-required-undeclared-property", fmt.Sprintf("a value that passes Validate() encodes to JSON lacking a required member that is not declared under properties: %s (%s)", clip(text), why), wit)
		case validUnder(fam.AllNoCount), validUnder(fam.AllBoth):
			r.Violate("json/property-count-enforced-by-decode-not-by-validate", fmt.Sprintf("a value that passes Validate() encodes to JSON violating a minProperties/maxProperties of the schema: %s (%s)", clip(text), why), wit)
		default:
			r.Violate("json/encoding-violates-schema:"+whyClass(why), fmt.Sprintf("a value of %s that passes its own Validate() encodes to JSON that is invalid against the source schema: %s ; reference: %s", fam.Root, clip(text), why), wit)
		}
	}
	if built > 0 {
		r.Count("conformance_types_exercised", 1)
	}
}

func whyClass(why string) string {
	for _, k := range []string{"required", "minimum", "maximum", "multipleOf", "minLength", "maxLength", "pattern", "minItems", "maxItems", "uniqueItems", "enum", "additionalProperties", "oneOf", "anyOf", "type", "nullable"} {
		if strings.Contains(why, k) {
			return k
		}
	}
	return "other"
}

// hasInexactBigInteger: the instance has a number spelled as an integer beyond 2^53 whose text is not the exact
// value of the nearest float64 (a float64 member printed in shortest form and padded with zeros): the generated
// validator judges the float, the reference the text.
func hasInexactBigInteger(v *jsonv.Value) bool {
	found := false
	v.Walk(func(x *jsonv.Value) {
		if found || x.Kind != jsonv.Number || !schemaref.IntegerText(x.Num) {
			return
		}
		t := strings.TrimPrefix(x.Num.Text, "-")
		if len(t) < 16 {
			return
		}
		f, err := strconv.ParseFloat(t, 64)
		if err != nil {
			found = true
			return
		}
		bf := new(big.Float).SetFloat64(f)
		bi, _ := bf.Int(nil)
		if bi.String() != t {
			found = true
		}
	})
	return found
}
