package servlab

import (
	"context"
	"encoding/json"
	"fmt"
	"net/http"
	"net/http/httptest"
	"runtime"
	"strings"
	"sync"

	"github.com/ogen-go/ogen/ogenerrors"

	"verifharness/internal/ev"
)

type C03Case struct {
	Body  string `json:"body"`
	Valid bool   `json:"valid"`
	Kind  string `json:"kind"` // valid | mutant:<kind> | random
	Why   string `json:"why,omitempty"`
	Tag   string `json:"tag,omitempty"` // required-undeclared: invalid only because a required name is not declared under properties
}

type C03Family struct {
	Path   string    `json:"path"`
	Schema string    `json:"schema"` // compact JSON of the root schema (for witnesses)
	Comps  string    `json:"components,omitempty"`
	Cases  []C03Case `json:"cases"`
	Tags   []string  `json:"tags,omitempty"` // recursive-sum
}

type C03Spec struct {
	Key      string      `json:"key"`
	Families []C03Family `json:"families"`
}

type C03Data struct {
	Specs []C03Spec `json:"specs"`
}

func init() { drivers["c03"] = runC03 }

type c03Disp struct {
	mu      sync.Mutex
	invoked []string
	errs    []string
}

func (d *c03Disp) Call(iface, method string, args []any) []any {
	if iface == "Handler" {
		d.mu.Lock()
		d.invoked = append(d.invoked, method)
		d.mu.Unlock()
	}
	return nil
}

func (d *c03Disp) errorHandler(ctx context.Context, w http.ResponseWriter, r *http.Request, err error) {
	d.mu.Lock()
	d.errs = append(d.errs, fmt.Sprintf("%T: %v", err, err))
	d.mu.Unlock()
	ogenerrors.DefaultErrorHandler(ctx, w, r, err)
}

func runC03(r *ev.Run, data json.RawMessage) error {
	var d C03Data
	if err := json.Unmarshal(data, &d); err != nil {
		return err
	}
	var firstErr error
	var emu sync.Mutex
	type job struct {
		spec *C03Spec
		fam  *C03Family
	}
	var jobs []job
	for i := range d.Specs {
		for j := range d.Specs[i].Families {
			jobs = append(jobs, job{&d.Specs[i], &d.Specs[i].Families[j]})
		}
	}
	ev.Parallel(len(jobs), runtime.NumCPU(), func(i int) {
		j := jobs[i]
		pkg := Lookup(j.spec.Key)
		if pkg == nil {
			emu.Lock()
			firstErr = fmt.Errorf("package %s not linked", j.spec.Key)
			emu.Unlock()
			return
		}
		disp := &c03Disp{}
		srv, err := pkg.NewServer(disp, ServerConfig{ErrorHandler: disp.errorHandler})
		if err != nil {
			emu.Lock()
			firstErr = err
			emu.Unlock()
			return
		}
		for ci, c := range j.fam.Cases {
			disp.mu.Lock()
			disp.invoked, disp.errs = nil, nil
			disp.mu.Unlock()
			req := httptest.NewRequest("POST", j.fam.Path, strings.NewReader(c.Body))
			req.Header.Set("Content-Type", "application/json")
			w := httptest.NewRecorder()
			pan, txt := ev.Guard(func() { srv.ServeHTTP(w, req) })
			disp.mu.Lock()
			invoked := len(disp.invoked) > 0
			serr := strings.Join(disp.errs, " | ")
			disp.mu.Unlock()
			r.Eval(1)
			r.Distinct(j.spec.Key + j.fam.Path + "|" + c.Body)
			r.Count("cases_"+kindClass(c.Kind), 1)
			if c.Valid {
				r.Count("reference_valid", 1)
			} else {
				r.Count("reference_invalid", 1)
			}
			wit := map[string]any{"schema": clipS(j.fam.Schema, 20000), "components": clipS(j.fam.Comps, 20000), "instance": clipS(c.Body, 600), "instance_kind": c.Kind, "reference_valid": c.Valid, "reference_reason": c.Why, "status": w.Code, "handler_invoked": invoked, "server_error": clipS(serr, 400)}
			switch {
			case pan:
				r.Violate("schema/server-panic", fmt.Sprintf("ServeHTTP panicked on instance %s: %s", clipS(c.Body, 200), txt), wit)
			case c.Valid && (!invoked || w.Code < 200 || w.Code > 299) && strings.Contains(serr, "unable to detect sum type variant") && hasTag(j.fam.Tags, "recursive-sum"):
				r.Violate("schema/recursive-sum-unique-fields-incomplete", fmt.Sprintf("valid instance of a recursive oneOf refused (status %d, unable to detect sum type variant): %s ; schema %s ; components %s", w.Code, clipS(c.Body, 200), clipS(j.fam.Schema, 200), clipS(j.fam.Comps, 400)), wit)
			case c.Valid && (!invoked || w.Code < 200 || w.Code > 299) && c.Tag == "null-for-propertyless-object":
				r.Violate("schema/nullable-propertyless-object-refuses-null", fmt.Sprintf("null refused for a nullable object schema without properties (status %d): %s ; schema %s ; server: %s", w.Code, clipS(c.Body, 200), clipS(j.fam.Schema, 300), clipS(serr, 200)), wit)
			case c.Valid && (!invoked || w.Code < 200 || w.Code > 299) && c.Tag == "null-for-object-in-recursive-family" && strings.Contains(serr, "\"{\" expected"):
				r.Violate("schema/nullable-object-near-recursion-refuses-null", fmt.Sprintf("null refused for a nullable object in a schema family with a recursive component (status %d): %s ; server: %s", w.Code, clipS(c.Body, 200), clipS(serr, 200)), wit)
			case c.Valid && (!invoked || w.Code < 200 || w.Code > 299):
				r.Violate("schema/valid-refused:"+refuseClass(serr), fmt.Sprintf("valid instance refused (status %d): %s ; schema %s ; server: %s", w.Code, clipS(c.Body, 200), clipS(j.fam.Schema, 300), clipS(serr, 200)), wit)
			case !c.Valid && invoked && c.Tag == "required-undeclared":
				r.Violate("schema/required-undeclared-property-not-enforced", fmt.Sprintf("instance lacking a required member that is not declared under properties reached the handler (reference: %s): %s ; schema %s", c.Why, clipS(c.Body, 200), clipS(j.fam.Schema, 300)), wit)
			case !c.Valid && invoked:
				r.Violate("schema/invalid-accepted:"+mutClass(c.Kind, c.Why), fmt.Sprintf("invalid instance reached the handler (%s; reference: %s): %s ; schema %s", c.Kind, c.Why, clipS(c.Body, 200), clipS(j.fam.Schema, 300)), wit)
			case !c.Valid && w.Code != 400:
				r.Violate("schema/invalid-not-400", fmt.Sprintf("invalid instance answered with status %d", w.Code), wit)
			}
			if i%40 == 0 && ci < 2 {
				r.Sample(wit)
			}
		}
		r.Count("schemas", 1)
	})
	return firstErr
}

func clipS(s string, n int) string {
	if len(s) > n {
		return s[:n] + "…"
	}
	return s
}

func kindClass(k string) string {
	if i := strings.IndexByte(k, ':'); i >= 0 {
		return k[:i]
	}
	return k
}

// mutClass: the keyword family of a mutant kind ("minimum/-1" -> "minimum").
func mutClass(kind, why string) string {
	k := strings.TrimPrefix(kind, "mutant:")
	if i := strings.IndexByte(k, '/'); i >= 0 {
		k = k[:i]
	}
	if i := strings.IndexByte(k, ':'); i >= 0 {
		k = k[:i]
	}
	if k == "random" || k == "" {
		// name by the reference's reason instead
		w := why
		if i := strings.IndexByte(w, ':'); i >= 0 {
			w = w[:i]
		}
		if len(w) > 30 {
			w = w[:30]
		}
		return "random/" + w
	}
	return k
}

func refuseClass(serr string) string {
	for _, k := range []string{"unable to detect sum type variant", "unexpected field", "invalid:", "required", "less than", "greater than", "multiple", "regex", "len ", "duplicate", "properties number", "items number", "unexpected byte", "unexpected EOF"} {
		if strings.Contains(serr, k) {
			return strings.ReplaceAll(strings.TrimSuffix(k, ":"), " ", "-")
		}
	}
	return "other"
}

func hasTag(tags []string, t string) bool {
	for _, x := range tags {
		if x == t {
			return true
		}
	}
	return false
}
