package servlab

import (
	"context"
	"encoding/json"
	"errors"
	"fmt"
	"net/http"
	"net/http/httptest"
	"net/url"
	"reflect"
	"runtime"
	"sort"
	"strings"

	"github.com/ogen-go/ogen/ogenerrors"

	"verifharness/internal/ev"
)

type C09Scheme struct {
	Name  string `json:"name"`
	Kind  string `json:"kind"` // header | query | cookie | basic | bearer | oauth2
	Param string `json:"param,omitempty"`
}

type C09Op struct {
	Path   string           `json:"path"`
	Mode   string           `json:"mode"`         // op | global | none
	Alts   [][]int          `json:"alternatives"` // effective alternatives (scheme indices); empty list = no requirement
	Scopes map[int][]string `json:"scopes,omitempty"`
	// Unsatisfiable: the operation declares alternatives, but each names a scheme the generator does not implement
	// (dropped under ignore_not_implemented): no request can satisfy the requirement
	Unsatisfiable bool `json:"unsatisfiable,omitempty"`
}

type C09Spec struct {
	Key        string      `json:"key"`
	Schemes    []C09Scheme `json:"schemes"`
	Ops        []C09Op     `json:"ops"`
	Exhaustive bool        `json:"exhaustive"`
	States     int         `json:"states"` // random states per op when not exhaustive
	Client     bool        `json:"client"`
	Convenient bool        `json:"convenient,omitempty"` // every operation has the same default response (convenient errors)
}

type C09Data struct {
	Specs []C09Spec `json:"specs"`
}

func init() { drivers["c09"] = runC09 }

const (
	stAbsent = iota
	stAccepted
	stDeclined
	stFailed
)

var stNames = []string{"absent", "accepted", "declined", "failed"}

type c09Disp struct {
	spec      *C09Spec
	pkg       *Package
	byMethod  map[string]int // "HandleS0" / "S0" -> scheme index
	script    []int          // state per scheme for the current request
	invoked   []string
	secCalls  map[int]any // scheme -> credential struct received
	secOps    map[int]string
	supply    map[int]any // client: scheme -> credential struct to supply (absent = skip)
	srcCalled map[int]bool
}

var errBoom = errors.New("verif: scripted security failure")

func (d *c09Disp) Call(iface, method string, args []any) []any {
	switch iface {
	case "Handler":
		if method == "NewError" {
			// convenient errors: what a user's NewError typically does - 401 for a security error, else 500
			var t reflect.Type
			if ht := d.pkg.Type("Handler"); ht != nil && ht.Kind() == reflect.Interface {
				if m, ok := ht.MethodByName("NewError"); ok && m.Type.NumOut() == 1 && m.Type.Out(0).Kind() == reflect.Pointer {
					t = m.Type.Out(0).Elem()
				}
			}
			if t == nil || t.Kind() != reflect.Struct {
				return nil
			}
			v := reflect.New(t)
			code := 500
			var sec *ogenerrors.SecurityError
			if len(args) > 1 {
				if e, ok := args[1].(error); ok && errors.As(e, &sec) {
					code = 401
				}
			}
			if f := v.Elem().FieldByName("StatusCode"); f.IsValid() && f.CanSet() && f.Kind() == reflect.Int {
				f.SetInt(int64(code))
			}
			return []any{v.Interface()}
		}
		d.invoked = append(d.invoked, method)
		return nil
	case "SecurityHandler":
		i, ok := d.byMethod[method]
		if !ok {
			panic("harness: unknown security handler method " + method)
		}
		d.secCalls[i] = args[2]
		d.secOps[i] = fmt.Sprint(args[1])
		ctx := args[0].(context.Context)
		switch d.script[i] {
		case stAccepted:
			return []any{ctx, nil}
		case stDeclined:
			return []any{nil, ogenerrors.ErrSkipServerSecurity}
		default:
			return []any{nil, errBoom}
		}
	case "SecuritySource":
		i, ok := d.byMethod[method]
		if !ok {
			panic("harness: unknown security source method " + method)
		}
		d.srcCalled[i] = true
		if c, ok := d.supply[i]; ok {
			return []any{c, nil}
		}
		return []any{nil, ogenerrors.ErrSkipClientSecurity}
	}
	return nil
}

func (d *c09Disp) reset() {
	d.invoked = d.invoked[:0]
	d.secCalls = map[int]any{}
	d.secOps = map[int]string{}
	d.srcCalled = map[int]bool{}
}

func runC09(r *ev.Run, data json.RawMessage) error {
	var d C09Data
	if err := json.Unmarshal(data, &d); err != nil {
		return err
	}
	var firstErr error
	ev.Parallel(len(d.Specs), runtime.NumCPU(), func(i int) {
		defer func() {
			if p := recover(); p != nil && firstErr == nil {
				firstErr = fmt.Errorf("%s: %v", d.Specs[i].Key, p)
			}
		}()
		if err := c09Spec(r, &d.Specs[i]); err != nil && firstErr == nil {
			firstErr = err
		}
	})
	return firstErr
}

func credValue(rng *ev.Rand, hostile bool) string {
	safe := "abcdefghijklmnopqrstuvwxyzABCDEFGHIJKLMNOPQRSTUVWXYZ0123456789-._~"
	n := 1 + rng.Intn(12)
	var b strings.Builder
	for i := 0; i < n; i++ {
		if hostile && rng.Intn(3) == 0 {
			b.WriteByte(byte(0x20 + rng.Intn(0x5f))) // visible ASCII + blank
		} else {
			b.WriteByte(safe[rng.Intn(len(safe))])
		}
	}
	// leading/trailing blanks are not part of an HTTP field value (RFC 7230 3.2.4): outside the domain
	v := strings.Trim(b.String(), " ")
	if v == "" {
		v = "x"
	}
	return v
}

func setField(v reflect.Value, name string, val any) bool {
	f := v.FieldByName(name)
	if !f.IsValid() {
		return false
	}
	f.Set(reflect.ValueOf(val))
	return true
}

func credFields(v any) map[string]any {
	out := map[string]any{}
	rv := reflect.ValueOf(v)
	if rv.Kind() == reflect.Pointer {
		return map[string]any{"(pointer)": fmt.Sprint(v)}
	}
	if rv.Kind() != reflect.Struct {
		return map[string]any{"(value)": fmt.Sprint(v)}
	}
	for i := 0; i < rv.NumField(); i++ {
		out[rv.Type().Field(i).Name] = rv.Field(i).Interface()
	}
	return out
}

func c09Spec(r *ev.Run, spec *C09Spec) error {
	pkg := Lookup(spec.Key)
	if pkg == nil {
		return fmt.Errorf("package %s not linked", spec.Key)
	}
	disp := &c09Disp{spec: spec, pkg: pkg, byMethod: map[string]int{}, script: make([]int, len(spec.Schemes))}
	for i, s := range spec.Schemes {
		tn := strings.ToUpper(s.Name[:1]) + s.Name[1:]
		disp.byMethod["Handle"+tn] = i
		disp.byMethod[tn] = i
	}
	disp.reset()
	srv, err := pkg.NewServer(disp, ServerConfig{})
	if err != nil {
		return err
	}
	opName := map[string]string{}
	for _, o := range pkg.Ops {
		opName[o.Path] = o.Name
	}
	rng := r.Rand("c09", spec.Key)

	// credentials attached to a raw request for scheme i
	attach := func(req *http.Request, i int, q url.Values, val string) {
		s := spec.Schemes[i]
		switch s.Kind {
		case "header":
			req.Header.Set(s.Param, val)
		case "query":
			q.Set(s.Param, val)
		case "cookie":
			req.AddCookie(&http.Cookie{Name: s.Param, Value: val})
		case "basic":
			// Basic must come first: net/http's BasicAuth reads the first Authorization value
			old := req.Header.Values("Authorization")
			req.Header.Del("Authorization")
			req.SetBasicAuth("user"+val, "pw"+val)
			for _, o := range old {
				req.Header.Add("Authorization", o)
			}
		case "bearer", "oauth2":
			req.Header.Add("Authorization", "Bearer "+val)
		}
	}
	checkCred := func(i int, got any, val string, op *C09Op) string {
		f := credFields(got)
		s := spec.Schemes[i]
		switch s.Kind {
		case "header", "query", "cookie":
			if f["APIKey"] != val {
				return fmt.Sprintf("scheme %s (%s): APIKey %q, sent %q", s.Name, s.Kind, f["APIKey"], val)
			}
		case "basic":
			if f["Username"] != "user"+val || f["Password"] != "pw"+val {
				return fmt.Sprintf("scheme %s (basic): got %v, sent user%s/pw%s", s.Name, f, val, val)
			}
		case "bearer":
			if f["Token"] != val {
				return fmt.Sprintf("scheme %s (bearer): Token %q, sent %q", s.Name, f["Token"], val)
			}
		case "oauth2":
			if f["Token"] != val {
				return fmt.Sprintf("scheme %s (oauth2): Token %q, sent %q", s.Name, f["Token"], val)
			}
			// compared as sets: ogen concatenates the scopes of every alternative naming the scheme
			got, _ := f["Scopes"].([]string)
			want := dedupSorted(op.Scopes[i])
			g := dedupSorted(got)
			if !reflect.DeepEqual(want, g) && !(len(want) == 0 && len(g) == 0) {
				return fmt.Sprintf("scheme %s (oauth2): Scopes %q, operation declares %q", s.Name, got, op.Scopes[i])
			}
		}
		return ""
	}

	for oi := range spec.Ops {
		op := &spec.Ops[oi]
		name := opName[op.Path]
		if name == "" {
			return fmt.Errorf("%s: no operation for path %s", spec.Key, op.Path)
		}
		// schemes used by the operation
		used := map[int]bool{}
		for _, a := range op.Alts {
			for _, s := range a {
				used[s] = true
			}
		}
		var U []int
		for s := range used {
			U = append(U, s)
		}
		sort.Ints(U)
		nStates := 1
		exhaustive := spec.Exhaustive && len(U) <= 4
		if exhaustive {
			for range U {
				nStates *= 4
			}
		} else {
			nStates = spec.States
		}
		for si := 0; si < nStates; si++ {
			st := make([]int, len(spec.Schemes))
			if exhaustive {
				x := si
				for _, s := range U {
					st[s] = x % 4
					x /= 4
				}
			} else {
				// biased: most states accepted so that long conjunctions get satisfied sometimes
				pAcc := 50 + rng.Intn(50)
				for _, s := range U {
					if rng.Intn(100) < pAcc {
						st[s] = stAccepted
					} else {
						st[s] = []int{stAbsent, stDeclined, stAbsent, stDeclined, stFailed}[rng.Intn(5)]
					}
				}
			}
			copy(disp.script, st)
			disp.reset()
			req := httptest.NewRequest("GET", op.Path, nil)
			q := url.Values{}
			vals := map[int]string{}
			for _, s := range U {
				if st[s] != stAbsent {
					vals[s] = credValue(rng, false)
					attach(req, s, q, vals[s])
				}
			}
			req.URL.RawQuery = q.Encode()
			w := httptest.NewRecorder()
			var pan string
			func() {
				defer func() {
					if p := recover(); p != nil {
						pan = fmt.Sprint(p)
					}
				}()
				srv.ServeHTTP(w, req)
			}()
			// oracle
			anyFailed := false
			for _, s := range U {
				if st[s] == stFailed {
					anyFailed = true
				}
			}
			satisfied := len(op.Alts) == 0 && !op.Unsatisfiable
			for _, a := range op.Alts {
				ok := true
				for _, s := range a {
					if st[s] != stAccepted {
						ok = false
					}
				}
				if ok {
					satisfied = true
				}
			}
			invoked := len(disp.invoked) > 0
			stDesc := map[string]string{}
			for _, s := range U {
				stDesc[spec.Schemes[s].Name+"("+spec.Schemes[s].Kind+")"] = stNames[st[s]]
			}
			key := fmt.Sprintf("%s|%s|%v", spec.Key, op.Path, st)
			r.Eval(1)
			if len(U) > 0 {
				r.Distinct(key)
			}
			r.Count(fmt.Sprintf("server_status_%d", w.Code), 1)
			wit := func() map[string]any {
				return map[string]any{"spec": spec.Key, "operation": name, "path": op.Path, "mode": op.Mode, "alternatives": altNames(spec, op.Alts), "scheme_states": stDesc, "status": w.Code, "handler_invoked": invoked, "reference_satisfied": satisfied, "security_handler_calls": len(disp.secCalls)}
			}
			viol := func(sig, msg string) {
				r.Violate("security/"+sig, fmt.Sprintf("requirements %v states %v: %s (status %d, handler invoked=%v)", altNames(spec, op.Alts), stDesc, msg, w.Code, invoked), wit())
			}
			switch {
			case pan != "":
				viol("panic", "ServeHTTP panicked: "+pan)
			case len(disp.invoked) > 1:
				viol("handler-called-twice", "handler invoked more than once")
			case invoked && disp.invoked[0] != name:
				viol("wrong-operation", "handler "+disp.invoked[0]+" ran instead of "+name)
			case invoked && op.Unsatisfiable:
				viol("unimplemented-scheme-fail-open", "handler ran although every alternative of the operation names a scheme the generator does not implement")
			case invoked && !satisfied:
				viol("handler-ran-unsatisfied", "handler ran although no alternative has all its schemes accepted")
			case !invoked && w.Code != 401:
				viol("refused-not-401", "handler not invoked but status is not 401")
			case invoked && (w.Code < 200 || w.Code > 299):
				viol("invoked-not-2xx", "handler invoked but status is not 2xx")
			case !anyFailed && satisfied && !invoked:
				viol("satisfied-but-refused", "an alternative is fully accepted (and no scheme handler failed) but the handler did not run")
			}
			// credentials the security handler saw
			for s, got := range disp.secCalls {
				if st[s] == stAbsent {
					viol("handler-called-without-credentials", "security handler of "+spec.Schemes[s].Name+" called although no credentials were presented")
					continue
				}
				if msg := checkCred(s, got, vals[s], op); msg != "" {
					viol("credential-mismatch/"+spec.Schemes[s].Kind, msg)
				}
				if disp.secOps[s] != name {
					viol("wrong-operation-name", fmt.Sprintf("security handler got operation name %q for %s", disp.secOps[s], name))
				}
			}
			if oi < 2 && si%37 == 0 {
				r.Sample(wit())
			}
		}

		// ---- part B: generated client -> generated server
		if !spec.Client || op.Unsatisfiable {
			continue
		}
		nAuth := 0
		for _, s := range U {
			switch spec.Schemes[s].Kind {
			case "basic", "bearer", "oauth2":
				nAuth++
			}
		}
		if nAuth > 1 {
			continue // Authorization header can carry one scheme from the generated client
		}
		tr := &WireTransport{H: srv}
		cl, err := pkg.NewClient(disp, ClientConfig{URL: "http://verif.local", HTTP: tr})
		if err != nil {
			return err
		}
		m := reflect.ValueOf(cl).MethodByName(name)
		if !m.IsValid() {
			return fmt.Errorf("%s: client has no method %s", spec.Key, name)
		}
		nSub := 1 << len(U)
		if len(U) > 5 {
			nSub = 40
		}
		for xi := 0; xi < nSub; xi++ {
			for _, hostile := range []bool{false, true} {
				disp.reset()
				disp.supply = map[int]any{}
				for i := range disp.script {
					disp.script[i] = stAccepted
				}
				X := map[int]bool{}
				for k, s := range U {
					if (len(U) <= 5 && xi&(1<<k) != 0) || (len(U) > 5 && rng.Intn(4) > 0) {
						X[s] = true
					}
				}
				sent := map[int]map[string]any{}
				for s := range X {
					sc := spec.Schemes[s]
					t := pkg.Type(strings.ToUpper(sc.Name[:1]) + sc.Name[1:])
					if t == nil {
						return fmt.Errorf("%s: no credential type for scheme %s", spec.Key, sc.Name)
					}
					v := reflect.New(t).Elem()
					switch sc.Kind {
					case "header", "query", "cookie":
						setField(v, "APIKey", credValue(rng, hostile))
					case "basic":
						u := strings.ReplaceAll(credValue(rng, hostile), ":", "_")
						setField(v, "Username", u)
						setField(v, "Password", credValue(rng, hostile))
					case "bearer":
						setField(v, "Token", credValue(rng, hostile))
					case "oauth2":
						setField(v, "Token", credValue(rng, hostile))
					}
					disp.supply[s] = v.Interface()
					sent[s] = credFields(v.Interface())
				}
				out := m.Call([]reflect.Value{reflect.ValueOf(context.Background())})
				var cerr error
				if e := out[len(out)-1].Interface(); e != nil {
					cerr = e.(error)
				}
				clientOK := len(op.Alts) == 0
				for _, a := range op.Alts {
					ok := true
					for _, s := range a {
						if !X[s] {
							ok = false
						}
					}
					if ok {
						clientOK = true
					}
				}
				invoked := len(disp.invoked) > 0
				r.Eval(1)
				r.Distinct(fmt.Sprintf("%s|%s|client|%d|%v", spec.Key, op.Path, xi, hostile))
				supplied := []string{}
				for s := range X {
					supplied = append(supplied, spec.Schemes[s].Name+"("+spec.Schemes[s].Kind+")")
				}
				sort.Strings(supplied)
				wit := map[string]any{"spec": spec.Key, "operation": name, "alternatives": altNames(spec, op.Alts), "client_supplies": supplied, "sent": fmt.Sprint(sent), "hostile_values": hostile, "client_error": fmt.Sprint(cerr), "handler_invoked": invoked}
				viol := func(sig, msg string) {
					r.Violate("security-client/"+sig, fmt.Sprintf("requirements %v, client supplies %v (hostile=%v): %s", altNames(spec, op.Alts), supplied, hostile, msg), wit)
				}
				switch {
				case !clientOK && invoked:
					viol("handler-ran-unsatisfied", "handler ran although the supplied credentials cover no alternative")
				case !clientOK && cerr == nil:
					viol("no-error-unsatisfied", "client returned no error although no alternative is covered")
				case clientOK && !invoked && !hostile:
					viol("token-safe-credentials-not-delivered", fmt.Sprintf("credentials cover an alternative but the handler did not run: %v", cerr))
				case clientOK && invoked && cerr != nil:
					viol("client-error-after-success", fmt.Sprintf("handler ran but the client reports %v", cerr))
				}
				if invoked {
					for s := range X {
						got, ok := disp.secCalls[s]
						if !ok {
							if !hostile {
								viol("credential-not-extracted/"+spec.Schemes[s].Kind, "server did not extract the credential of "+spec.Schemes[s].Name)
							}
							continue
						}
						if !reflect.DeepEqual(stripScopes(credFields(got)), stripScopes(sent[s])) {
							viol("credential-changed/"+spec.Schemes[s].Kind+classifyCredChange(spec.Schemes[s].Kind, stripScopes(credFields(got)), stripScopes(sent[s])), fmt.Sprintf("scheme %s: server extracted %q, client attached %q", spec.Schemes[s].Name, credFields(got), sent[s]))
						}
						if spec.Schemes[s].Kind == "oauth2" {
							if msg := checkCred(s, got, fmt.Sprint(credFields(got)["Token"]), op); msg != "" { // scopes only; the token is compared above
								viol("credential-mismatch/oauth2", msg)
							}
						}
					}
					for s := range disp.secCalls {
						if !X[s] {
							viol("credential-from-nowhere", "server extracted a credential for "+spec.Schemes[s].Name+" that the client did not attach")
						}
					}
				}
				if cerr != nil {
					r.Count("client_errors", 1)
				} else {
					r.Count("client_calls_delivered", 1)
				}
			}
		}
	}
	r.Count("specs", 1)
	return nil
}

func stripScopes(m map[string]any) map[string]any {
	out := map[string]any{}
	for k, v := range m {
		if k != "Scopes" {
			out[k] = v
		}
	}
	return out
}

func altNames(spec *C09Spec, alts [][]int) []string {
	var out []string
	for _, a := range alts {
		var ns []string
		for _, s := range a {
			ns = append(ns, spec.Schemes[s].Name)
		}
		out = append(out, "{"+strings.Join(ns, "&")+"}")
	}
	return out
}

func dedupSorted(in []string) []string {
	m := map[string]bool{}
	var out []string
	for _, x := range in {
		if !m[x] {
			m[x] = true
			out = append(out, x)
		}
	}
	sort.Strings(out)
	return out
}

// cookieSanitize mirrors what net/http does to a cookie value on the way
// out (invalid bytes dropped) and back in (surrounding quotes stripped).
func cookieSanitize(v string) string {
	var b strings.Builder
	for i := 0; i < len(v); i++ {
		c := v[i]
		if 0x20 <= c && c < 0x7f && c != '"' && c != ';' && c != '\\' {
			b.WriteByte(c)
		}
	}
	return b.String()
}

// classifyCredChange names the two transport effects that are listed as
// known findings; anything else stays unclassified.
func classifyCredChange(kind string, got, sent map[string]any) string {
	if len(got) != len(sent) {
		return ""
	}
	all := func(f func(s, g string) bool) bool {
		for k, sv := range sent {
			ss, ok1 := sv.(string)
			gs, ok2 := got[k].(string)
			if !ok1 || !ok2 {
				return false
			}
			if ss != gs && !f(ss, gs) {
				return false
			}
		}
		return true
	}
	switch kind {
	case "header", "bearer", "oauth2":
		if all(func(s, g string) bool { return strings.Trim(s, " \t") == g }) {
			return "/surrounding-blanks-trimmed"
		}
	case "cookie":
		if all(func(s, g string) bool {
			return cookieSanitize(s) == g || strings.TrimSpace(cookieSanitize(s)) == g
		}) {
			return "/invalid-cookie-bytes-dropped"
		}
	}
	return ""
}
