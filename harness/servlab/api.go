// Package servlab is linked into driver binaries together with freshly
// generated ogen packages (through the typed shim written by shimgen). It
// holds the registry, the reflection-based value builder and comparator,
// recording handlers and the per-property drivers.
package servlab

import (
	"context"
	"errors"
	"net/http"
	"net/url"
	"reflect"
	"sort"
	"strings"
	"sync"

	ht "github.com/ogen-go/ogen/http"
	"github.com/ogen-go/ogen/middleware"
	"github.com/ogen-go/ogen/ogenerrors"
)

var (
	ErrNoServer = errors.New("package generated without server")
	ErrNoClient = errors.New("package generated without client")
)

// Dispatcher receives every call made by generated code on a generated
// interface (Handler, SecurityHandler, SecuritySource, ...).
type Dispatcher interface {
	Call(iface, method string, args []any) []any
}

// DispatchFunc adapts a function.
type DispatchFunc func(iface, method string, args []any) []any

func (f DispatchFunc) Call(iface, method string, args []any) []any { return f(iface, method, args) }

type RouteInfo struct {
	Name        string
	OperationID string
	PathPattern string
	Args        []string
}

type Server interface {
	http.Handler
	VerifFindPath(method string, u *url.URL) (RouteInfo, bool)
	VerifFindRoute(method, path string) (RouteInfo, bool)
}

type ServerConfig struct {
	ErrorHandler       ogenerrors.ErrorHandler
	NotFound           http.HandlerFunc
	MethodNotAllowed   func(w http.ResponseWriter, r *http.Request, allowed string)
	PathPrefix         string
	Middleware         []middleware.Middleware
	MaxMultipartMemory int64
}

type ClientConfig struct {
	URL  string
	HTTP ht.Client
}

type OpInfo struct {
	Iface  string // Handler | WebhookHandler
	Name   string
	Method string
	Path   string
}

type Package struct {
	Name               string
	Ops                []OpInfo
	Types              []reflect.Type
	NewServer          func(d Dispatcher, cfg ServerConfig) (Server, error)
	NewClient          func(d Dispatcher, cfg ClientConfig) (any, error)
	HasSecurityHandler bool
	HasSecuritySource  bool
	HasNewError        bool
	// WithServerURL applies the generated per-call server URL override (nil when the package has none): it
	// returns the context to use and, for the request-option flavour, the option to append to the call
	WithServerURL func(ctx context.Context, u *url.URL) (context.Context, any)

	once   sync.Once
	byName map[string]reflect.Type

	mu          sync.Mutex
	constrained map[reflect.Type]bool
}

func (p *Package) Type(name string) reflect.Type {
	p.once.Do(func() {
		p.byName = map[string]reflect.Type{}
		for _, t := range p.Types {
			p.byName[t.Name()] = t
		}
	})
	return p.byName[name]
}

func (p *Package) Op(name string) *OpInfo {
	for i := range p.Ops {
		if p.Ops[i].Name == name && p.Ops[i].Iface == "Handler" {
			return &p.Ops[i]
		}
	}
	return nil
}

// Implementers lists the concrete types (T or *T) of the package that implement iface.
func (p *Package) Implementers(iface reflect.Type) []reflect.Type {
	var out []reflect.Type
	for _, t := range p.Types {
		if t.Kind() == reflect.Interface {
			continue
		}
		if t.Implements(iface) {
			out = append(out, t)
		} else if reflect.PointerTo(t).Implements(iface) {
			out = append(out, reflect.PointerTo(t))
		}
	}
	sort.Slice(out, func(i, j int) bool { return out[i].String() < out[j].String() })
	return out
}

var (
	regMu    sync.Mutex
	registry = map[string]*Package{}
)

// Register is called from the generated main of a driver binary.
func Register(key string, p *Package) {
	regMu.Lock()
	registry[key] = p
	regMu.Unlock()
}

func Lookup(key string) *Package {
	regMu.Lock()
	defer regMu.Unlock()
	return registry[key]
}

func Keys() []string {
	regMu.Lock()
	defer regMu.Unlock()
	var ks []string
	for k := range registry {
		ks = append(ks, k)
	}
	sort.Strings(ks)
	return ks
}

// TemplateParts splits "/a/{x}b" into literal and parameter parts.
type Part struct {
	Lit   string
	Param string // non-empty for a parameter
}

func ParseTemplate(t string) []Part {
	var out []Part
	for len(t) > 0 {
		i := strings.IndexByte(t, '{')
		if i < 0 {
			out = append(out, Part{Lit: t})
			break
		}
		if i > 0 {
			out = append(out, Part{Lit: t[:i]})
		}
		j := strings.IndexByte(t[i:], '}')
		if j < 0 {
			out = append(out, Part{Lit: t[i:]})
			break
		}
		out = append(out, Part{Param: t[i+1 : i+j]})
		t = t[i+j+1:]
	}
	return out
}
