package servlab

import (
	"bufio"
	"bytes"
	"fmt"
	"io"
	"net/http"
	"net/http/httptest"
	"sync"

	"golang.org/x/net/http/httpguts"
)

// WireTransport is an in-process ht.Client: the request is serialised with
// http.Request.Write and parsed back with http.ReadRequest (so the HTTP/1.1
// wire form, header canonicalisation, cookie sanitising and URL escaping of
// net/http are in the loop), then served by H into a recorder.
type WireTransport struct {
	H http.Handler

	mu   sync.Mutex
	Last *WireRecord // last exchange (sequential drivers only)
	Keep bool
}

type WireRecord struct {
	RequestBytes []byte
	Status       int
	Header       http.Header
	Body         []byte
	ServePanic   string
}

func (t *WireTransport) Do(req *http.Request) (*http.Response, error) {
	// what http.Transport checks before it sends anything (net/http/transport.go roundTrip)
	for k, vv := range req.Header {
		if !httpguts.ValidHeaderFieldName(k) {
			return nil, fmt.Errorf("net/http: invalid header field name %q", k)
		}
		for _, v := range vv {
			if !httpguts.ValidHeaderFieldValue(v) {
				return nil, fmt.Errorf("net/http: invalid header field value for %q", k)
			}
		}
	}
	var buf bytes.Buffer
	// Request.Write needs a host
	if req.URL.Host == "" && req.Host == "" {
		req.Host = "verif.local"
	}
	if err := req.Write(&buf); err != nil {
		return nil, fmt.Errorf("wire: write request: %w", err)
	}
	raw := buf.Bytes()
	sreq, err := http.ReadRequest(bufio.NewReader(bytes.NewReader(raw)))
	if err != nil {
		return nil, fmt.Errorf("wire: server could not parse request: %w", err)
	}
	sreq = sreq.WithContext(req.Context())
	sreq.RemoteAddr = "127.0.0.1:1"
	rec := httptest.NewRecorder()
	var panicTxt string
	func() {
		defer func() {
			if p := recover(); p != nil {
				panicTxt = fmt.Sprint(p)
			}
		}()
		t.H.ServeHTTP(rec, sreq)
	}()
	if sreq.Body != nil {
		io.Copy(io.Discard, sreq.Body)
		sreq.Body.Close()
	}
	res := rec.Result()
	res.Request = req
	if t.Keep {
		t.mu.Lock()
		t.Last = &WireRecord{RequestBytes: append([]byte(nil), raw...), Status: rec.Code, Header: rec.Header().Clone(), Body: append([]byte(nil), rec.Body.Bytes()...), ServePanic: panicTxt}
		t.mu.Unlock()
	}
	if panicTxt != "" {
		return nil, fmt.Errorf("wire: ServeHTTP panicked: %s", panicTxt)
	}
	return res, nil
}
