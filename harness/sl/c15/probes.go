package c15

import (
	"encoding/json"
	"fmt"
	"os"
	"sort"
	"strings"

	"gopkg.in/yaml.v3"

	"verifharness/servlab"
)

// Parameter probes: requests synthesised from the document's own parameter declarations (method, path template,
// name and location of every parameter), so that an operation is exercised even when the generated client cannot
// produce a request for it (the capture step then yields nothing and every mutant class derived from it is empty).
// The document is read here with a plain YAML/JSON decoder and local references only; what is sent is workload, the
// verdict is the serve monitor's.

func probesOf(doc []byte) []servlab.C15Probe {
	var root map[string]any
	if err := yaml.Unmarshal(doc, &root); err != nil {
		return nil
	}
	deref := func(v any) map[string]any {
		for i := 0; i < 8; i++ {
			m, _ := v.(map[string]any)
			if m == nil {
				return nil
			}
			ref, _ := m["$ref"].(string)
			if ref == "" || !strings.HasPrefix(ref, "#/") {
				return m
			}
			var cur any = root
			for _, tok := range strings.Split(ref[2:], "/") {
				tok = strings.ReplaceAll(strings.ReplaceAll(tok, "~1", "/"), "~0", "~")
				cm, _ := cur.(map[string]any)
				if cm == nil {
					return nil
				}
				cur = cm[tok]
			}
			v = cur
		}
		return nil
	}
	params := func(v any) []servlab.C15Param {
		list, _ := v.([]any)
		var out []servlab.C15Param
		for _, p := range list {
			m := deref(p)
			if m == nil {
				continue
			}
			name, _ := m["name"].(string)
			in, _ := m["in"].(string)
			if name != "" && in != "" {
				out = append(out, servlab.C15Param{Name: name, In: in})
			}
		}
		return out
	}
	paths, _ := root["paths"].(map[string]any)
	var keys []string
	for k := range paths {
		keys = append(keys, k)
	}
	sort.Strings(keys)
	var out []servlab.C15Probe
	for _, p := range keys {
		item := deref(paths[p])
		if item == nil {
			continue
		}
		common := params(item["parameters"])
		for _, m := range []string{"get", "put", "post", "delete", "options", "head", "patch", "trace"} {
			op, _ := item[m].(map[string]any)
			if op == nil {
				continue
			}
			pr := servlab.C15Probe{Method: strings.ToUpper(m), Path: p, Params: append(append([]servlab.C15Param{}, common...), params(op["parameters"])...)}
			if rb := deref(op["requestBody"]); rb != nil {
				if c, _ := rb["content"].(map[string]any); c != nil {
					for ct := range c {
						pr.ContentTypes = append(pr.ContentTypes, ct)
					}
					sort.Strings(pr.ContentTypes)
				}
			}
			out = append(out, pr)
		}
	}
	return out
}

// edgeDocs: crafted documents at the edge of what the generator admits as a parameter schema. Per location, one
// document per (nesting shape x how the inner schema is named x a sibling parameter that uses the inner schema
// legitimately, declared before or after). The generator may refuse an operation (it is then skipped, the documents
// are generated with "ignore not implemented") - but whatever it emits has to answer requests like any other server.
func edgeDocs(explodes []string) map[string][]byte {
	out := map[string][]byte{}
	str := map[string]any{"type": "string"}
	for _, loc := range []string{"query", "header", "cookie", "path"} {
		schemas := map[string]any{
			"Strs":  map[string]any{"type": "array", "items": str},
			"Strs2": map[string]any{"type": "array", "items": map[string]any{"$ref": "#/components/schemas/Strs"}},
			"Obj":   map[string]any{"type": "object", "properties": map[string]any{"a": str, "b": map[string]any{"type": "integer"}}},
			"ObjArr": map[string]any{"type": "object", "properties": map[string]any{
				"a": str, "list": map[string]any{"$ref": "#/components/schemas/Strs"}}},
			"ObjObj": map[string]any{"type": "object", "properties": map[string]any{
				"a": str, "inner": map[string]any{"$ref": "#/components/schemas/Obj"}}},
			"Rec": map[string]any{"type": "array", "items": map[string]any{"$ref": "#/components/schemas/Rec"}},
		}
		ref := func(n string) map[string]any { return map[string]any{"$ref": "#/components/schemas/" + n} }
		arr := func(items any) map[string]any { return map[string]any{"type": "array", "items": items} }
		type shape struct {
			name   string
			schema map[string]any
			decoy  map[string]any // the inner schema, used legitimately by a sibling parameter
		}
		shapes := []shape{
			{"arr-of-refarr", arr(ref("Strs")), ref("Strs")},
			{"ref-arr-of-refarr", ref("Strs2"), ref("Strs")},
			{"arr-of-arr", arr(arr(str)), arr(str)},
			{"arr-of-refobj", arr(ref("Obj")), ref("Obj")},
			{"arr-of-obj", arr(map[string]any{"type": "object", "properties": map[string]any{"a": str}}), ref("Obj")},
			{"obj-with-refarr", ref("ObjArr"), ref("Strs")},
			{"obj-with-refobj", ref("ObjObj"), ref("Obj")},
			{"obj-with-arr-inline", map[string]any{"type": "object", "properties": map[string]any{"a": str, "list": arr(str)}}, arr(str)},
			{"rec-arr", ref("Rec"), ref("Strs")},
			{"arr-of-rec", arr(ref("Rec")), ref("Strs")},
		}
		n := 0
		for _, sh := range shapes {
			// VERIF_C15_EDGE_SKIP=rec leaves the self-referencing shapes out: only for experiments on trees older than
			// the repair 532e8e8d, where admitting them exhausts memory inside the generator
			if os.Getenv("VERIF_C15_EDGE_SKIP") == "rec" && strings.Contains(sh.name, "rec-") || os.Getenv("VERIF_C15_EDGE_SKIP") == "rec" && strings.HasSuffix(sh.name, "-rec") {
				continue
			}
			for _, decoy := range []string{"none", "before", "after"} {
				for _, explode := range explodes {
					n++
					mk := func(name string, schema map[string]any, required bool) map[string]any {
						p := map[string]any{"name": name, "in": loc, "schema": schema, "required": required || loc == "path"}
						if explode != "" {
							p["explode"] = explode == "true"
						}
						return p
					}
					path := "/e"
					var ps []any
					target := mk("t", sh.schema, true)
					if loc == "path" {
						path += "/{t}"
					}
					switch decoy {
					case "before":
						if loc == "path" {
							path += "/{d}"
						}
						ps = []any{mk("d", sh.decoy, false), target}
					case "after":
						if loc == "path" {
							path += "/{d}"
						}
						ps = []any{target, mk("d", sh.decoy, false)}
					default:
						ps = []any{target}
					}
					paths := map[string]any{path: map[string]any{"get": map[string]any{
						"operationId": "edge",
						"description": fmt.Sprintf("%s %s decoy=%s explode=%q", loc, sh.name, decoy, explode),
						"parameters":  ps,
						"responses":   map[string]any{"200": map[string]any{"description": "ok"}},
					}}}
					doc := map[string]any{
						"openapi": "3.0.3", "info": map[string]any{"title": "parameter admission edge", "version": "1"},
						"paths": paths, "components": map[string]any{"schemas": schemas},
					}
					b, _ := json.MarshalIndent(doc, "", " ")
					out[fmt.Sprintf("crafted/param-edge/%s/%s/decoy-%s/explode-%s", loc, sh.name, decoy, explode)] = b
				}
			}
		}
	}
	return out
}
