// Package c15 (parent side): generated servers answer every HTTP request
// without crashing or over-accepting.
package c15

import (
	"encoding/json"
	"fmt"
	"os"
	"path/filepath"
	"sort"
	"strings"
	"time"

	"verifharness/internal/e3"
	"verifharness/internal/ev"
	"verifharness/internal/genlab"
	"verifharness/servlab"
)

var quickCorpus = []string{
	"positive/parameters.json", "positive/http_requests.json", "positive/http_responses.json", "positive/form.json",
	"positive/sample.json", "positive/security.json", "examples/petstore-expanded.yml", "examples/manga.json",
	"positive/allOf.yml", "positive/anyOf.json", "examples/firecracker.json", "positive/ex_route_params.json",
}

func Main(args []string) int {
	r := ev.New("C15", "exploration")
	if len(args) >= 2 && args[0] == "--replay" {
		r.Replay = args[1]
		fmt.Println("replay: the request list is a function of VERIF_SEED/VERIF_TIER; the witness stores the raw request bytes and the spec it was sent to")
	}
	mod, cleanup, err := genlab.EnterScratchModule("c15")
	if err != nil {
		fmt.Println("ERROR", err)
		return 2
	}
	defer cleanup()
	td := filepath.Join(ev.RepoDir(), "_testdata")
	var files []string
	if r.Thorough() {
		for _, p := range genlab.Corpus("positive", "examples") {
			if strings.Contains(p, "file_reference_external") || strings.Contains(p, "api.github.com") || strings.Contains(p, "superset") {
				continue
			}
			files = append(files, p)
		}
	} else {
		for _, c := range quickCorpus {
			files = append(files, filepath.Join(td, c))
		}
	}
	sort.Strings(files)
	var jobs []e3.SpecJob
	info := map[string]servlab.C15Pkg{}
	for i, p := range files {
		it := genlab.CorpusItem(p)
		it.DefaultFeat = false
		it.Features = []string{"paths/client", "paths/server"}
		it.Convenient = "off"
		key := fmt.Sprintf("p%04d", i)
		j, err := e3.JobFromItem(key, it)
		if err != nil {
			continue
		}
		jobs = append(jobs, j)
		info[key] = servlab.C15Pkg{Key: key, Origin: it.ID, PerOp: r.N(4, 8), Muts: r.N(100, 400), Probes: probesOf(j.Spec)}
	}
	nCorpus := len(jobs)
	// crafted documents at the edge of parameter admission (a document the generator refuses is tallied)
	explodes := []string{"", "false"}
	if r.Thorough() {
		explodes = []string{"", "false", "true"}
	}
	edge := edgeDocs(explodes)
	var edgeNames []string
	for n := range edge {
		edgeNames = append(edgeNames, n)
	}
	sort.Strings(edgeNames)
	for i, n := range edgeNames {
		it := genlab.Item{ID: n, Text: string(edge[n]), Name: "spec", Features: []string{"paths/client", "paths/server"}, Convenient: "off"}
		key := fmt.Sprintf("e%04d", i)
		j, err := e3.JobFromItem(key, it)
		if err != nil {
			continue
		}
		jobs = append(jobs, j)
		info[key] = servlab.C15Pkg{Key: key, Origin: it.ID, PerOp: r.N(2, 4), Muts: r.N(20, 60), Probes: probesOf(j.Spec)}
	}
	// corpus documents in batches of 12 per driver binary; the small crafted documents (most of them refused before
	// anything is compiled) in batches of 60
	var cuts [][2]int
	for lo := 0; lo < nCorpus; lo += 12 {
		cuts = append(cuts, [2]int{lo, min(lo+12, nCorpus)})
	}
	for lo := nCorpus; lo < len(jobs); lo += 60 {
		cuts = append(cuts, [2]int{lo, min(lo+60, len(jobs))})
	}
	rejected := map[string]string{}
	for b, cut := range cuts {
		lo, hi := cut[0], cut[1]
		drv, err := e3.Build(mod, fmt.Sprintf("drv%02d", b), jobs[lo:hi], false)
		if err != nil {
			fmt.Println("ERROR", err)
			return 2
		}
		var pk []servlab.C15Pkg
		for _, j := range jobs[lo:hi] {
			if msg, bad := drv.Rejected[j.Key]; bad {
				rejected[info[j.Key].Origin] = first(msg)
				continue
			}
			pk = append(pk, info[j.Key])
		}
		data, _ := json.Marshal(servlab.C15Data{Pkgs: pk})
		res, err := drv.Run(servlab.Job{Driver: "c15", Prop: "C15", Data: data}, 60*time.Minute)
		if err != nil {
			fmt.Println("ERROR", err)
			return 2
		}
		if res.Watchdog {
			r.Inconclusive("driver-watchdog", nil)
			continue
		}
		if res.Exit != 0 {
			// a fatal error inside the driver while serving a request is what this property forbids
			if strings.Contains(res.Output, "fatal error") || strings.Contains(res.Output, "goroutine ") {
				r.Violate("serve/process-died", "driver process died while serving requests: "+first(res.Output), map[string]any{"output": tail(res.Output, 3000)})
				continue
			}
			fmt.Printf("ERROR driver exited with %d:\n%s\n", res.Exit, res.Output)
			return 2
		}
		if err := r.MergeFile(res.OutFile); err != nil {
			fmt.Println("ERROR", err)
			return 2
		}
		os.Remove(drv.Bin)
	}
	r.Set("documents_rejected_by_generator", rejected)
	r.Assume("valid requests are captured from the generated client (wire form); mutants that net/http itself cannot parse are tallied and not sent (a real server answers them before the generated code runs)")
	r.Assume("stage -> status table: NotFound 404; MethodNotAllowed 405 (204 for OPTIONS); *ogenerrors.SecurityError 401; *DecodeParamsError 400; *DecodeRequestError 400, or 415 when it wraps *validate.InvalidContentTypeError; handler error 500; in all refusal stages the handler must not run; every request reports exactly one terminal stage; WriteHeader is called at most once; a JSON body that reached the handler is one well-formed JSON text under a strict RFC 8259 parser")
	return r.Finish("servers regenerated for corpus packages; per operation: valid requests captured from the generated client, then systematic mutants (methods, request-target and query corruption, dropped/duplicated/corrupted/emptied headers, wrong and parameterised content types, Content-Length lies, body truncated at every prefix <= 64, trailing bytes, duplicate/dropped/null/unknown JSON members, 10^4-deep nesting, replaced bodies, wrong multipart boundaries), PRNG byte mutants, hand-built *http.Request values bypassing URL validation, and a handler scripted to fail. distinct = (spec, class, request bytes)", 3000, false)
}

func first(s string) string {
	if i := strings.IndexByte(s, '\n'); i >= 0 {
		s = s[:i]
	}
	if len(s) > 300 {
		s = s[:300]
	}
	return s
}

func tail(s string, n int) string {
	if len(s) > n {
		return s[len(s)-n:]
	}
	return s
}
