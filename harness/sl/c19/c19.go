// Package c19 (parent side): generated clients and servers under concurrent
// use, in a driver built with the race detector.
package c19

import (
	"encoding/json"
	"fmt"
	"os"
	"path/filepath"
	"strings"
	"time"

	"github.com/ogen-go/ogen/gen"

	"verifharness/gl/c10"
	"verifharness/internal/e3"
	"verifharness/internal/ev"
	"verifharness/internal/genlab"
	"verifharness/servlab"
)

const kvSpec = `{"openapi":"3.0.3","info":{"title":"kv","version":"1"},"paths":{
"/kv/{key}":{
 "put":{"operationId":"putKv","parameters":[{"name":"key","in":"path","required":true,"schema":{"type":"string"}}],"requestBody":{"required":true,"content":{"application/json":{"schema":{"$ref":"#/components/schemas/PutReq"}}}},"responses":{"200":{"description":"ok","content":{"application/json":{"schema":{"$ref":"#/components/schemas/Res"}}}}}},
 "get":{"operationId":"getKv","parameters":[{"name":"key","in":"path","required":true,"schema":{"type":"string"}}],"responses":{"200":{"description":"ok","content":{"application/json":{"schema":{"$ref":"#/components/schemas/Res"}}}}}},
 "delete":{"operationId":"deleteKv","parameters":[{"name":"key","in":"path","required":true,"schema":{"type":"string"}}],"responses":{"200":{"description":"ok","content":{"application/json":{"schema":{"$ref":"#/components/schemas/Res"}}}}}}},
"/cas":{"post":{"operationId":"cas","requestBody":{"required":true,"content":{"application/json":{"schema":{"$ref":"#/components/schemas/CasReq"}}}},"responses":{"200":{"description":"ok","content":{"application/json":{"schema":{"$ref":"#/components/schemas/Res"}}}}}}}},
"components":{"schemas":{
 "PutReq":{"type":"object","required":["value"],"properties":{"value":{"type":"string","minLength":1,"pattern":"^g[0-9]+-"}}},
 "CasReq":{"type":"object","required":["key","old","new"],"properties":{"key":{"type":"string"},"old":{"type":"string"},"new":{"type":"string","pattern":"^(?=g)g[0-9]+-"}}},
 "Res":{"type":"object","required":["value","found","done"],"properties":{"value":{"type":"string"},"found":{"type":"boolean"},"done":{"type":"boolean"}}}}}}`

var quickCorpus = []string{"positive/sample.json", "positive/parameters.json", "positive/http_requests.json", "positive/form.json"}

func Main(args []string) int {
	r := ev.New("C19", "exploration")
	if len(args) >= 2 && args[0] == "--replay" {
		r.Replay = args[1]
		fmt.Println("replay: schedules are not replayable; re-running the recorded tier and seed repeats the workload under the race detector")
	}
	mod, cleanup, err := genlab.EnterScratchModule("c19")
	if err != nil {
		fmt.Println("ERROR", err)
		return 2
	}
	defer cleanup()
	td := filepath.Join(ev.RepoDir(), "_testdata")
	var files []string
	if r.Thorough() {
		for _, p := range genlab.Corpus("positive", "examples") {
			st, _ := os.Stat(p)
			if strings.Contains(p, "file_reference_external") || st.Size() > 130000 {
				continue
			}
			files = append(files, p)
		}
	} else {
		for _, c := range quickCorpus {
			files = append(files, filepath.Join(td, c))
		}
	}
	feats := genlab.Features("paths/client", "paths/server", "client/request/validation", "server/response/validation", "ogen/otel")
	jobs := []e3.SpecJob{{Key: "p0000", Spec: []byte(kvSpec), Opts: gen.Options{Generator: gen.GenerateOptions{Features: feats}}}}
	pk := []servlab.C19Pkg{{Key: "p0000", Origin: "kv-spec", Calls: r.N(1600, 6000), Goroutines: 16, Rounds: r.N(6, 30), KV: true}}
	for i, p := range files {
		it := genlab.CorpusItem(p)
		it.DefaultFeat = false
		it.Features = []string{"paths/client", "paths/server", "client/request/validation", "server/response/validation", "ogen/otel"}
		it.Convenient = "off"
		key := fmt.Sprintf("p%04d", i+1)
		j, err := e3.JobFromItem(key, it)
		if err != nil {
			continue
		}
		jobs = append(jobs, j)
		pk = append(pk, servlab.C19Pkg{Key: key, Origin: it.ID, Calls: r.N(300, 800), Goroutines: r.N(32, 64), Rounds: r.N(2, 6)})
	}
	// one more package of the first document with per-request client options generated in (option flavour of
	// the per-call server URL override; the other packages have the context flavour)
	if len(files) > 0 {
		it := genlab.CorpusItem(files[0])
		it.DefaultFeat = false
		it.Features = []string{"paths/client", "paths/server", "client/request/validation", "server/response/validation", "ogen/otel", "client/request/options"}
		it.Convenient = "off"
		if j, err := e3.JobFromItem("p9000", it); err == nil {
			jobs = append(jobs, j)
			pk = append(pk, servlab.C19Pkg{Key: "p9000", Origin: it.ID + "#request-options", Calls: r.N(300, 800), Goroutines: r.N(32, 64), Rounds: r.N(2, 6)})
		}
	}
	batch := 8
	scratchLogs := filepath.Join(mod.Dir, "race")
	for b := 0; b*batch < len(jobs); b++ {
		lo, hi := b*batch, (b+1)*batch
		if hi > len(jobs) {
			hi = len(jobs)
		}
		drv, err := e3.Build(mod, fmt.Sprintf("drv%02d", b), jobs[lo:hi], true)
		if err != nil {
			fmt.Println("ERROR", err)
			return 2
		}
		var live []servlab.C19Pkg
		for i := lo; i < hi; i++ {
			if _, bad := drv.Rejected[pk[i].Key]; bad {
				if pk[i].KV {
					fmt.Println("ERROR the key/value spec was rejected:", drv.Rejected[pk[i].Key])
					return 2
				}
				r.Count("documents_rejected_by_generator", 1)
				continue
			}
			live = append(live, pk[i])
		}
		for _, procs := range []int{2, 16} {
			data, _ := json.Marshal(servlab.C19Data{Pkgs: live})
			res, err := drv.Run(servlab.Job{Driver: "c19", Prop: "C19", Data: data}, 60*time.Minute,
				fmt.Sprintf("GOMAXPROCS=%d", procs), "GORACE=halt_on_error=0 log_path="+scratchLogs)
			if err != nil {
				fmt.Println("ERROR", err)
				return 2
			}
			if res.Watchdog {
				r.Inconclusive("driver-watchdog", nil)
				continue
			}
			// exit status 66 = the race detector reported something (read from the logs below)
			if res.Exit != 0 && res.Exit != 66 {
				if res.Fatal != "" {
					// e.g. "fatal error: concurrent map writes": not recoverable, the whole driver dies
					r.Violate("concurrent/process-died:"+first(res.Fatal), "driver died under concurrent use: "+first(res.Fatal), map[string]any{"fatal": res.Fatal, "frames_in_ogen_or_generated_code": genlab.OgenFrames(res.Fatal, 12)})
					continue
				}
				fmt.Printf("ERROR driver exited with %d:\n%s\n", res.Exit, res.Output)
				return 2
			}
			if err := r.MergeFile(res.OutFile); err != nil {
				fmt.Println("ERROR", err)
				return 2
			}
			r.Count("driver_runs", 1)
		}
		os.Remove(drv.Bin)
	}
	reports := c10.RaceReports(scratchLogs + "*")
	r.Set("race_reports_distinct", len(reports))
	for key, blk := range reports {
		if strings.Contains(key, "verifharness/") && !strings.Contains(blk, "scratch/gen/") && !strings.Contains(blk, "ogen-go/ogen") {
			// a race inside the harness itself would be a harness bug, not a finding
			fmt.Printf("ERROR race inside the harness: %s\n%s\n", key, blk)
			return 2
		}
		r.Violate("data-race:"+key, "race detector report under concurrent use of generated client/server: "+key, map[string]any{"frames": key, "report": blk})
	}
	r.Assume("interleavings are those reached with 16-64 goroutines, GOMAXPROCS in {2,16}, PRNG-determined Gosched/sleep in the handler between request decoding and response encoding, an in-process wire transport and a real loopback connection pool, servers with and without a chain of yielding pass-through middlewares, multipart and stream operations included (readers rewound before each execution; one read-only part header map shared by all uploads), a third of the calls made with the per-call server URL override (one *url.URL shared by all goroutines; context and request-option flavour), OpenTelemetry instrumentation generated in (no-op providers); the evidence reports the maximum number of handler invocations in flight")
	r.Assume("isolation oracle: the handler's answer is a deterministic function of the request it received (unique ids embedded in every string leaf), so each call's outcome under concurrency must equal its outcome in the preceding sequential run of the same list; key/value histories with unique written values are checked by porcupine per key against a register model (timeout = inconclusive)")
	return r.Finish("driver built with -race from freshly generated packages (key/value spec with RE2 and look-ahead patterns, ogen's sample/parameters/requests specs with request and response validation on): a fixed list of calls (valid, hostile, validation-failing; all operations) run sequentially, then concurrently in PRNG order by many goroutines, outcomes compared call by call; key/value histories checked for linearizability. distinct = (package, transport, round, call) plus recorded key/value operations", 2000, false)
}

func first(s string) string {
	if i := strings.IndexByte(s, '\n'); i >= 0 {
		s = s[:i]
	}
	if len(s) > 300 {
		s = s[:300]
	}
	return s
}

func tail(s string, n int) string {
	if len(s) > n {
		return s[len(s)-n:]
	}
	return s
}
