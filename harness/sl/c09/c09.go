// Package c09 (parent side): security requirement structures.
package c09

import (
	"encoding/json"
	"fmt"
	"os"
	"time"

	"github.com/ogen-go/ogen/gen"

	"verifharness/internal/e3"
	"verifharness/internal/ev"
	"verifharness/internal/genlab"
	"verifharness/servlab"
)

func schemeObj(s servlab.C09Scheme) map[string]any {
	switch s.Kind {
	case "header", "query", "cookie":
		return map[string]any{"type": "apiKey", "in": s.Kind, "name": s.Param}
	case "basic":
		return map[string]any{"type": "http", "scheme": "basic"}
	case "bearer":
		return map[string]any{"type": "http", "scheme": "bearer"}
	case "oidc":
		// a scheme type ogen does not implement: under ignore_not_implemented every alternative that names it is dropped
		return map[string]any{"type": "openIdConnect", "openIdConnectUrl": "https://example.com/.well-known/openid-configuration"}
	case "oauth2":
		return map[string]any{"type": "oauth2", "flows": map[string]any{"implicit": map[string]any{"authorizationUrl": "https://example.com/auth", "scopes": map[string]any{"read": "r", "write": "w", "admin": "a"}}}}
	}
	panic("kind")
}

func secList(spec *servlab.C09Spec, alts [][]int, scopes map[int][]string) []any {
	out := []any{}
	for _, a := range alts {
		m := map[string]any{}
		for _, s := range a {
			sc := []string{}
			if spec.Schemes[s].Kind == "oauth2" {
				sc = append(sc, scopes[s]...)
			}
			m[spec.Schemes[s].Name] = sc
		}
		out = append(out, m)
	}
	return out
}

// render builds the document. global (if non-nil) is the top-level security.
func render(spec *servlab.C09Spec, global [][]int, rawOps []rawOp) []byte {
	paths := map[string]any{}
	for _, o := range rawOps {
		op := map[string]any{"responses": map[string]any{"200": map[string]any{"description": "ok"}}}
		if spec.Convenient {
			// every operation has the same default response: the generator folds it into convenient errors (NewError)
			op["responses"].(map[string]any)["default"] = map[string]any{"description": "error", "content": map[string]any{"application/json": map[string]any{"schema": map[string]any{"type": "object", "required": []any{"code"}, "properties": map[string]any{"code": map[string]any{"type": "integer"}, "message": map[string]any{"type": "string"}}}}}}
		}
		switch o.mode {
		case "op":
			op["security"] = secList(spec, o.alts, o.scopes)
		case "none":
			op["security"] = []any{}
		case "global":
		}
		paths[o.path] = map[string]any{"get": op}
	}
	ss := map[string]any{}
	for _, s := range spec.Schemes {
		ss[s.Name] = schemeObj(s)
	}
	doc := map[string]any{"openapi": "3.0.3", "info": map[string]any{"title": "sec", "version": "1"}, "paths": paths, "components": map[string]any{"securitySchemes": ss}}
	if global != nil {
		doc["security"] = secList(spec, global, globalScopes)
	}
	b, _ := json.Marshal(doc)
	return b
}

// globalScopes: OAuth2 scopes of the top-level requirement of the document being built (nil = none)
var globalScopes map[int][]string

type rawOp struct {
	path   string
	mode   string
	alts   [][]int
	scopes map[int][]string
}

func mkSchemes(kinds []string) []servlab.C09Scheme {
	var out []servlab.C09Scheme
	for i, k := range kinds {
		s := servlab.C09Scheme{Name: fmt.Sprintf("s%d", i), Kind: k}
		switch k {
		case "header":
			// spellings that are and are not in the canonical form of net/http (X-Api-Key): field names are
			// case-insensitive, the client may write any of them
			s.Param = fmt.Sprintf([]string{"X-K%d", "X-API-Key%d", "x-api-key-%d", "api_key_%d", "X-k%dId"}[i%5], i)
		case "query":
			s.Param = fmt.Sprintf("k%d", i)
		case "cookie":
			s.Param = fmt.Sprintf("c%d", i)
		}
		out = append(out, s)
	}
	return out
}

// all non-empty sets of alternatives over n schemes (alternatives = all subsets incl. empty)
func allStructures(n int) [][][]int {
	nAlt := 1 << n
	var out [][][]int
	for mask := 1; mask < 1<<nAlt; mask++ {
		var alts [][]int
		for a := 0; a < nAlt; a++ {
			if mask&(1<<a) == 0 {
				continue
			}
			alt := []int{}
			for s := 0; s < n; s++ {
				if a&(1<<s) != 0 {
					alt = append(alt, s)
				}
			}
			alts = append(alts, alt)
		}
		out = append(out, alts)
	}
	return out
}

func Main(args []string) int {
	r := ev.New("C09", "exploration")
	if len(args) >= 2 && args[0] == "--replay" {
		r.Replay = args[1]
		fmt.Println("replay: the spec list is a function of VERIF_SEED/VERIF_TIER only; re-running the recorded tier and seed reproduces the witness")
	}
	mod, cleanup, err := genlab.EnterScratchModule("c09")
	if err != nil {
		fmt.Println("ERROR", err)
		return 2
	}
	defer cleanup()
	rng := r.Rand("specs")

	var specs []servlab.C09Spec
	var docs [][]byte
	var optsList []gen.Options
	n := 0
	add := func(sp servlab.C09Spec, global [][]int, ops []rawOp, feats ...string) {
		n++
		sp.Key = fmt.Sprintf("p%04d", n)
		sp.Convenient = n%3 == 0
		unimplemented := false
		for _, sc := range sp.Schemes {
			if sc.Kind == "oidc" {
				unimplemented = true
			}
		}
		for _, o := range ops {
			eff := o.alts
			switch o.mode {
			case "global":
				eff = global
			case "none":
				eff = nil
			}
			// an alternative that names an unimplemented scheme can never be satisfied by this server
			var live [][]int
			for _, a := range eff {
				ok := true
				for _, s := range a {
					if sp.Schemes[s].Kind == "oidc" {
						ok = false
					}
				}
				if ok {
					live = append(live, a)
				}
			}
			sc := o.scopes
			if o.mode == "global" {
				sc = globalScopes
			}
			sp.Ops = append(sp.Ops, servlab.C09Op{Path: o.path, Mode: o.mode, Alts: live, Scopes: sc, Unsatisfiable: len(eff) > 0 && len(live) == 0})
		}
		specs = append(specs, sp)
		docs = append(docs, render(&sp, global, ops))
		f := append([]string{"paths/server", "paths/client"}, feats...)
		o := gen.Options{Generator: gen.GenerateOptions{Features: genlab.Features(f...)}}
		if unimplemented {
			o.Generator.IgnoreNotImplemented = []string{"all"}
		}
		optsList = append(optsList, o)
	}

	// exhaustive: all 255 structures over 3 schemes, for three kind rotations
	structs := allStructures(3)
	for _, kinds := range [][]string{{"header", "query", "cookie"}, {"basic", "cookie", "bearer"}, {"oauth2", "header", "query"}} {
		sp := servlab.C09Spec{Schemes: mkSchemes(kinds), Exhaustive: true, Client: true}
		var ops []rawOp
		for i, st := range structs {
			o := rawOp{path: fmt.Sprintf("/o%d", i), mode: "op", alts: st, scopes: map[int][]string{}}
			for s, k := range kinds {
				if k == "oauth2" {
					o.scopes[s] = [][]string{{"read"}, {"read", "write"}, {}, {"admin"}}[i%4]
				}
			}
			ops = append(ops, o)
		}
		add(sp, nil, ops)
	}
	// alternatives naming a scheme type ogen does not implement (openIdConnect), generated with ignore_not_implemented:
	// all 255 structures over {header, oidc, cookie}, and a global requirement with such an alternative
	{
		kinds := []string{"header", "oidc", "cookie"}
		sp := servlab.C09Spec{Schemes: mkSchemes(kinds), Exhaustive: true, Client: false}
		var ops []rawOp
		for i, st := range structs {
			ops = append(ops, rawOp{path: fmt.Sprintf("/u%d", i), mode: "op", alts: st, scopes: map[int][]string{}})
		}
		add(sp, nil, ops)
		kinds = []string{"oidc", "header", "bearer", "cookie"}
		ops = []rawOp{
			{path: "/inherit", mode: "global"},
			{path: "/none", mode: "none"},
			{path: "/only", mode: "op", alts: [][]int{{0}}},
			{path: "/with", mode: "op", alts: [][]int{{0, 1}}},
			{path: "/mixed", mode: "op", alts: [][]int{{1, 0}, {2, 3}, {1}}},
			{path: "/later", mode: "op", alts: [][]int{{3}, {2, 0}, {2}}},
		}
		add(servlab.C09Spec{Schemes: mkSchemes(kinds), Exhaustive: true, Client: false}, [][]int{{0, 1}, {1, 3}}, ops)
	}
	// a top-level OAuth2 requirement inherited by several operations (each must see the scopes), next to overrides
	{
		kinds := []string{"oauth2", "header", "cookie"} // one scheme per Authorization header
		globalScopes = map[int][]string{0: {"read", "write"}}
		ops := []rawOp{
			{path: "/i1", mode: "global"}, {path: "/i2", mode: "global"}, {path: "/i3", mode: "global"}, {path: "/i4", mode: "global"},
			{path: "/own", mode: "op", alts: [][]int{{0}}, scopes: map[int][]string{0: {"admin"}}},
			{path: "/none", mode: "none"},
		}
		add(servlab.C09Spec{Schemes: mkSchemes(kinds), Exhaustive: true, Client: true}, [][]int{{0, 1}, {2}}, ops)
		globalScopes = nil
	}
	// global / override / none
	{
		kinds := []string{"header", "cookie", "query", "bearer"}
		sp := servlab.C09Spec{Schemes: mkSchemes(kinds), Exhaustive: true, Client: true}
		global := [][]int{{0}, {1, 2}}
		ops := []rawOp{
			{path: "/inherit", mode: "global"},
			{path: "/none", mode: "none"},
			{path: "/anon", mode: "op", alts: [][]int{{}}},
			{path: "/override1", mode: "op", alts: [][]int{{3}}},
			{path: "/override2", mode: "op", alts: [][]int{{2, 3}, {0, 1}}},
			{path: "/override3", mode: "op", alts: [][]int{{1}, {}}},
			{path: "/override4", mode: "op", alts: [][]int{{0, 1, 2, 3}}},
		}
		add(sp, global, ops)
		// global with empty alternative
		add(servlab.C09Spec{Schemes: mkSchemes(kinds), Exhaustive: true, Client: true}, [][]int{{0, 1}, {}}, ops)
		add(servlab.C09Spec{Schemes: mkSchemes(kinds), Exhaustive: true, Client: true}, [][]int{{0, 1, 2, 3}}, ops, "client/security/reentrant")
	}
	// wide structures crossing the byte boundaries of the bitmask
	widths := []int{9, 16, 17, 20, 8, 24, 9, 17, 16, 20}
	nWide := r.N(10, 300)
	for w := 0; w < nWide; w++ {
		N := widths[w%len(widths)]
		if w >= len(widths) {
			N = 2 + rng.Intn(31)
		}
		kinds := make([]string, N)
		for i := range kinds {
			kinds[i] = []string{"header", "query", "cookie"}[rng.Intn(3)]
		}
		sp := servlab.C09Spec{Schemes: mkSchemes(kinds), States: r.N(300, 2000), Client: w%3 == 0}
		var ops []rawOp
		for j := 0; j < 10; j++ {
			var alts [][]int
			nAlt := 1 + rng.Intn(4)
			for a := 0; a < nAlt; a++ {
				var alt []int
				switch rng.Intn(5) {
				case 0: // everything
					for s := 0; s < N; s++ {
						alt = append(alt, s)
					}
				case 1: // one scheme, often the last or at a byte boundary
					alt = []int{[]int{N - 1, 7 % N, 8 % N, 15 % N, 16 % N, rng.Intn(N)}[rng.Intn(6)]}
				default:
					for s := 0; s < N; s++ {
						if rng.Intn(3) == 0 {
							alt = append(alt, s)
						}
					}
					if len(alt) == 0 {
						alt = []int{rng.Intn(N)}
					}
				}
				alts = append(alts, alt)
			}
			ops = append(ops, rawOp{path: fmt.Sprintf("/w%d", j), mode: "op", alts: alts})
		}
		var feats []string
		if r.Thorough() && w%5 == 4 {
			feats = append(feats, "client/security/reentrant")
		}
		add(sp, nil, ops, feats...)
	}

	batch := 60
	for b := 0; b*batch < len(specs); b++ {
		lo, hi := b*batch, (b+1)*batch
		if hi > len(specs) {
			hi = len(specs)
		}
		var jobs []e3.SpecJob
		for i := lo; i < hi; i++ {
			jobs = append(jobs, e3.SpecJob{Key: specs[i].Key, Spec: docs[i], Opts: optsList[i]})
		}
		drv, err := e3.Build(mod, fmt.Sprintf("drv%02d", b), jobs, false)
		if err != nil {
			fmt.Println("ERROR", err)
			return 2
		}
		var live []servlab.C09Spec
		for i := lo; i < hi; i++ {
			if msg, bad := drv.Rejected[specs[i].Key]; bad {
				// every spec here is inside the supported grammar: rejection is a machinery problem
				fmt.Printf("ERROR generator rejected security spec %s: %s\n%s\n", specs[i].Key, msg, docs[i][:min(len(docs[i]), 600)])
				return 2
			}
			live = append(live, specs[i])
		}
		data, _ := json.Marshal(servlab.C09Data{Specs: live})
		res, err := drv.Run(servlab.Job{Driver: "c09", Prop: "C09", Data: data}, 40*time.Minute)
		if err != nil {
			fmt.Println("ERROR", err)
			return 2
		}
		if res.Watchdog {
			r.Inconclusive("driver-watchdog", nil)
			continue
		}
		if res.Exit != 0 {
			fmt.Printf("ERROR driver exited with %d:\n%s\n", res.Exit, res.Output)
			return 2
		}
		if err := r.MergeFile(res.OutFile); err != nil {
			fmt.Println("ERROR", err)
			return 2
		}
		os.Remove(drv.Bin)
	}
	r.Assume("scheme state per request is scripted in the SecurityHandler: absent (no credentials sent), accepted, declined (ErrSkipServerSecurity), failed (other error); with a failed scheme only the safety half is asserted (ogen aborts on the first handler error by design)")
	r.Assume("client part: SecuritySource supplies a subset of schemes (others ErrSkipClientSecurity), the server accepts everything; token-safe credential values must arrive identical, hostile ones identical or the call must fail")
	return r.Finish("all 255 requirement structures over 3 schemes (three kind rotations incl. basic/bearer/oauth2) x all 4^n scheme states (exhaustive); global security with inherit / override / security:[] / anonymous alternative; wide structures over 8-32 schemes crossing bitmask byte boundaries with PRNG states; plus generated-client transport of every credential kind for every subset of supplied schemes. distinct = (spec, operation, scheme-state vector) with at least one scheme", 10000, false)
}
