// Package c04 (parent side): JSON encode/decode round trip of every generated type.
package c04

import (
	"encoding/json"
	"fmt"
	"os"
	"path/filepath"
	"sort"
	"strings"
	"time"
	"verifharness/internal/doctree"
	"verifharness/internal/jsonv"

	"verifharness/internal/e3"
	"verifharness/internal/ev"
	"verifharness/internal/genlab"
	"verifharness/internal/xspecs"
	"verifharness/servlab"
)

var quickCorpus = []string{
	"positive/format_gen.json", "positive/sample.json", "positive/allOf.yml", "positive/anyOf.json",
	"positive/additionalPropertiesPatternProperties.yml", "positive/http_responses.json", "positive/http_requests.json",
	"positive/time_extension.yml", "positive/enum_naming.yml", "examples/petstore-expanded.yml", "examples/manga.json",
	"examples/firecracker.json", "examples/tinkoff.json", "examples/2ch.yml", "positive/parameters.json", "positive/form.json",
}

func Main(args []string) int {
	r := ev.New("C04", "exploration")
	only := ""
	if len(args) >= 2 && args[0] == "--replay" {
		r.Replay = args[1]
		var w struct {
			Origin string `json:"origin"`
			Type   string `json:"type"`
		}
		if err := ev.ReadReplay(args[1], &w); err != nil {
			fmt.Println("ERROR", err)
			return 2
		}
		only = w.Origin + "|" + w.Type
	}
	mod, cleanup, err := genlab.EnterScratchModule("c04")
	if err != nil {
		fmt.Println("ERROR", err)
		return 2
	}
	defer cleanup()
	td := filepath.Join(ev.RepoDir(), "_testdata")
	var files []string
	if r.Thorough() {
		for _, p := range genlab.Corpus("positive", "examples") {
			if strings.Contains(p, "file_reference_external") {
				continue
			}
			files = append(files, p)
		}
	} else {
		for _, c := range quickCorpus {
			files = append(files, filepath.Join(td, c))
		}
	}
	sort.Strings(files)
	var jobs []e3.SpecJob
	origin := map[string]string{}
	for i, p := range files {
		it := genlab.CorpusItem(p)
		if only != "" && !strings.HasPrefix(only, it.ID+"|") {
			continue
		}
		it.DefaultFeat = false
		it.Features = []string{"paths/client", "paths/server", "webhooks/client", "webhooks/server"}
		key := fmt.Sprintf("p%04d", i)
		j, err := e3.JobFromItem(key, it)
		if err != nil {
			continue
		}
		jobs = append(jobs, j)
		origin[key] = it.ID
	}
	for _, name := range xspecs.Names() {
		if only != "" && !strings.HasPrefix(only, name+"|") {
			continue
		}
		key := fmt.Sprintf("x%04d", len(jobs))
		it := genlab.Item{ID: name, Text: string(xspecs.All()[name]), Name: "spec", Features: []string{"paths/client", "paths/server"}}
		j, err := e3.JobFromItem(key, it)
		if err != nil {
			continue
		}
		jobs = append(jobs, j)
		origin[key] = name
	}
	// one driver per batch: large packages (github, telegram) dominate compile time
	batch := 12
	values := r.N(24, 120)
	rejected := map[string]string{}
	for b := 0; b*batch < len(jobs); b++ {
		lo, hi := b*batch, (b+1)*batch
		if hi > len(jobs) {
			hi = len(jobs)
		}
		drv, err := e3.Build(mod, fmt.Sprintf("drv%02d", b), jobs[lo:hi], false)
		if err != nil {
			fmt.Println("ERROR", err)
			return 2
		}
		var pk []servlab.C04Pkg
		for _, j := range jobs[lo:hi] {
			if msg, bad := drv.Rejected[j.Key]; bad {
				rejected[origin[j.Key]] = first(msg)
				continue
			}
			pk = append(pk, servlab.C04Pkg{Key: j.Key, Origin: origin[j.Key], Values: values, TypeSchemas: drv.TypeSchemas[j.Key], Components: componentSchemas(j.Spec)})
		}
		o := ""
		if only != "" {
			for _, p := range pk {
				if strings.HasPrefix(only, p.Origin+"|") {
					o = p.Key + "|" + strings.TrimPrefix(only, p.Origin+"|")
				}
			}
		}
		data, _ := json.Marshal(servlab.C04Data{Pkgs: pk, Only: o})
		res, err := drv.Run(servlab.Job{Driver: "c04", Prop: "C04", Data: data}, 60*time.Minute)
		if err != nil {
			fmt.Println("ERROR", err)
			return 2
		}
		if res.Watchdog {
			r.Inconclusive("driver-watchdog", nil)
			continue
		}
		if res.Exit != 0 {
			fmt.Printf("ERROR driver exited with %d:\n%s\n", res.Exit, res.Output)
			return 2
		}
		if err := r.MergeFile(res.OutFile); err != nil {
			fmt.Println("ERROR", err)
			return 2
		}
		os.Remove(drv.Bin)
	}
	r.Set("documents_rejected_by_generator", rejected)
	// conformance clause on schema-known types: the generated families of the C03 engine
	if only == "" {
		if rc := ConformancePart(r); rc != 0 {
			return rc
		}
	}
	r.Assume("values are built by reflection over the generated Go types (all Opt/Nil/OptNil states, sum variants, enums, nil/empty/filled arrays and maps, extreme numbers, Unicode and escape-heavy strings) and kept only if the generated Validate() accepts them")
	r.Assume("leaf rules: time.Time compares equal to the sent instant or to its date / time-of-day / whole-second projection (the Go type does not reveal the format); nil -> [] is a tolerated normalisation, [] -> nil (absent) is not; NaN/Inf are never generated")
	return r.Finish("every named type with a generated JSON codec in the regenerated corpus packages (incl. the format matrix format_gen.json) x reflection-built validated values: Encode output is strict RFC 8259 JSON without duplicate members, Decode accepts it and returns an equal value (optional/nullable states, variant, nil-vs-empty), the decoded value validates, re-encoding gives the same JSON value. distinct = (package, type, value)", 3000, false)
}

func first(s string) string {
	if i := strings.IndexByte(s, '\n'); i >= 0 {
		s = s[:i]
	}
	if len(s) > 200 {
		s = s[:200]
	}
	return s
}

// ConformancePart is set by the vf main package (sl/c03 drives it).
var ConformancePart = func(r *ev.Run) int { return 0 }

// componentSchemas returns components.schemas of a document as compact JSON (for the conformance of corpus types:
// a type the generator built from #/components/schemas/<name> must encode to JSON valid against that schema).
func componentSchemas(spec []byte) string {
	tree, err := doctree.Load(spec)
	if err != nil || tree == nil {
		return ""
	}
	c := tree.Get("components")
	if c == nil || c.Get("schemas") == nil || c.Get("schemas").Kind != jsonv.Object {
		return ""
	}
	return string(jsonv.Compact(c.Get("schemas")))
}
