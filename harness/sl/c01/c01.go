// Package c01 (parent side): client <-> server exchange without silent change.
package c01

import (
	"encoding/json"
	"fmt"
	"os"
	"path/filepath"
	"sort"
	"strings"
	"time"

	"github.com/ogen-go/ogen/gen"

	"verifharness/internal/doctree"
	"verifharness/internal/e3"
	"verifharness/internal/ev"
	"verifharness/internal/genlab"
	"verifharness/internal/jsonv"
	"verifharness/internal/xspecs"
	"verifharness/servlab"
)

var quickCorpus = []string{
	"positive/parameters.json", "positive/http_requests.json", "positive/http_responses.json", "positive/form.json",
	"positive/sample.json", "positive/security.json", "positive/content_header_response.json", "positive/time_extension.yml",
	"examples/petstore-expanded.yml", "examples/manga.json", "positive/allOf.yml", "positive/anyOf.json",
}

var methods = []string{"get", "put", "post", "delete", "options", "head", "patch", "trace"}

// ResponseKeys reads "METHOD /path" -> response keys from a document tree (local path items only).
func ResponseKeys(doc *jsonv.Value) map[string][]string {
	out := map[string][]string{}
	paths := doc.Get("paths")
	if paths == nil || paths.Kind != jsonv.Object {
		return out
	}
	for _, pm := range paths.Members {
		item := pm.Value
		if item.Kind != jsonv.Object {
			continue
		}
		for _, m := range methods {
			op := item.Get(m)
			if op == nil || op.Kind != jsonv.Object {
				continue
			}
			rs := op.Get("responses")
			if rs == nil || rs.Kind != jsonv.Object {
				continue
			}
			var keys []string
			for _, r := range rs.Members {
				keys = append(keys, r.Name)
			}
			out[strings.ToUpper(m)+" "+pm.Name] = keys
		}
	}
	return out
}

// UnusedPathParams: "METHOD /path" -> names of parameters declared with in: path (operation or path-item level,
// component references resolved) that the path template does not contain.
func UnusedPathParams(doc *jsonv.Value) map[string][]string {
	out := map[string][]string{}
	paths := doc.Get("paths")
	if paths == nil || paths.Kind != jsonv.Object {
		return out
	}
	deref := func(p *jsonv.Value) *jsonv.Value {
		for k := 0; k < 5 && p != nil && p.Kind == jsonv.Object && p.Get("$ref") != nil; k++ {
			ref := p.Get("$ref").Str
			const pre = "#/components/parameters/"
			if !strings.HasPrefix(ref, pre) {
				return nil
			}
			c := doc.Get("components")
			if c == nil || c.Get("parameters") == nil {
				return nil
			}
			p = c.Get("parameters").Get(ref[len(pre):])
		}
		return p
	}
	for _, pm := range paths.Members {
		item := pm.Value
		if item.Kind != jsonv.Object {
			continue
		}
		for _, m := range methods {
			op := item.Get(m)
			if op == nil || op.Kind != jsonv.Object {
				continue
			}
			var names []string
			for _, holder := range []*jsonv.Value{item.Get("parameters"), op.Get("parameters")} {
				if holder == nil || holder.Kind != jsonv.Array {
					continue
				}
				for _, pe := range holder.Elems {
					p := deref(pe)
					if p == nil || p.Kind != jsonv.Object || p.Get("in") == nil || p.Get("in").Str != "path" || p.Get("name") == nil {
						continue
					}
					if n := p.Get("name").Str; !strings.Contains(pm.Name, "{"+n+"}") {
						names = append(names, n)
					}
				}
			}
			if len(names) > 0 {
				out[strings.ToUpper(m)+" "+pm.Name] = names
			}
		}
	}
	return out
}

// ResponseHeaderNames: "METHOD /path" -> response key -> header names the document declares for that response
// (component responses resolved).
func ResponseHeaderNames(doc *jsonv.Value) map[string]map[string][]string {
	out := map[string]map[string][]string{}
	paths := doc.Get("paths")
	if paths == nil || paths.Kind != jsonv.Object {
		return out
	}
	for _, pm := range paths.Members {
		if pm.Value.Kind != jsonv.Object {
			continue
		}
		for _, m := range methods {
			op := pm.Value.Get(m)
			if op == nil || op.Kind != jsonv.Object || op.Get("responses") == nil || op.Get("responses").Kind != jsonv.Object {
				continue
			}
			byCode := map[string][]string{}
			for _, rm := range op.Get("responses").Members {
				resp := rm.Value
				for k := 0; k < 5 && resp != nil && resp.Kind == jsonv.Object && resp.Get("$ref") != nil; k++ {
					const pre = "#/components/responses/"
					ref := resp.Get("$ref").Str
					c := doc.Get("components")
					if !strings.HasPrefix(ref, pre) || c == nil || c.Get("responses") == nil {
						resp = nil
						break
					}
					resp = c.Get("responses").Get(ref[len(pre):])
				}
				names := []string{}
				if resp != nil && resp.Kind == jsonv.Object && resp.Get("headers") != nil && resp.Get("headers").Kind == jsonv.Object {
					for _, hm := range resp.Get("headers").Members {
						names = append(names, hm.Name)
					}
				}
				byCode[rm.Name] = names
			}
			out[strings.ToUpper(m)+" "+pm.Name] = byCode
		}
	}
	return out
}

func Main(args []string) int {
	r := ev.New("C01", "exploration")
	only := ""
	if len(args) >= 2 && args[0] == "--replay" {
		r.Replay = args[1]
		var w struct {
			Origin string `json:"origin"`
			Op     string `json:"operation"`
		}
		if err := ev.ReadReplay(args[1], &w); err != nil {
			fmt.Println("ERROR", err)
			return 2
		}
		only = w.Origin + "|" + w.Op
	}
	mod, cleanup, err := genlab.EnterScratchModule("c01")
	if err != nil {
		fmt.Println("ERROR", err)
		return 2
	}
	defer cleanup()
	td := filepath.Join(ev.RepoDir(), "_testdata")
	var files []string
	if r.Thorough() {
		for _, p := range genlab.Corpus("positive", "examples") {
			if strings.Contains(p, "file_reference_external") || strings.Contains(p, "api.github.com") {
				continue
			}
			files = append(files, p)
		}
	} else {
		for _, c := range quickCorpus {
			files = append(files, filepath.Join(td, c))
		}
	}
	sort.Strings(files)
	type cfg struct {
		name  string
		feats []string
	}
	cfgs := []cfg{{"default", []string{"paths/client", "paths/server"}}}
	if r.Thorough() {
		cfgs = append(cfgs,
			cfg{"validation+options", []string{"paths/client", "paths/server", "client/request/validation", "server/response/validation", "client/request/options"}},
			cfg{"otel", []string{"paths/client", "paths/server", "ogen/otel", "ogen/unimplemented", "client/security/reentrant"}})
	}
	var jobs []e3.SpecJob
	info := map[string]servlab.C01Pkg{}
	n := 0
	for _, p := range files {
		for ci, c := range cfgs {
			if ci > 0 && !strings.Contains(p, "/positive/") {
				continue // feature configurations are crossed with ogen's own feature specs
			}
			it := genlab.CorpusItem(p)
			if only != "" && !strings.HasPrefix(only, it.ID+"|") && !strings.HasPrefix(only, it.ID+"#") {
				continue
			}
			it.DefaultFeat = false
			it.Features = c.feats
			it.Convenient = "off"
			n++
			key := fmt.Sprintf("p%04d", n)
			j, err := e3.JobFromItem(key, it)
			if err != nil {
				continue
			}
			jobs = append(jobs, j)
			pk := servlab.C01Pkg{Key: key, Origin: it.ID, Values: r.N(12, 60), Config: c.name}
			if ci > 0 {
				pk.Origin = it.ID + "#" + c.name
			}
			if tree, err := doctree.Load(j.Spec); err == nil {
				pk.Responses = ResponseKeys(tree)
				pk.UnusedPathParams = UnusedPathParams(tree)
				pk.ResponseHeaders = ResponseHeaderNames(tree)
			}
			info[key] = pk
		}
	}
	for _, name := range xspecs.Names() {
		if only != "" && !strings.HasPrefix(only, name+"|") {
			continue
		}
		n++
		key := fmt.Sprintf("p%04d", n)
		it := genlab.Item{ID: name, Text: string(xspecs.All()[name]), Name: "spec", Features: []string{"paths/client", "paths/server"}, Convenient: "off"}
		j, err := e3.JobFromItem(key, it)
		if err != nil {
			continue
		}
		jobs = append(jobs, j)
		pk := servlab.C01Pkg{Key: key, Origin: name, Values: r.N(30, 120), Config: "default"}
		if tree, err := doctree.Load(j.Spec); err == nil {
			pk.Responses = ResponseKeys(tree)
		}
		info[key] = pk
	}
	// parameter matrix (observed admission), packed into documents of 90 operations
	if only == "" || strings.HasPrefix(only, "matrix/") {
		mopts := gen.Options{Generator: gen.GenerateOptions{Features: genlab.Features("paths/client", "paths/server")}}
		_ = mopts.Generator.ConvenientErrors.Set("off")
		single, live := buildMatrix(r, mopts, 90)
		type namedDoc struct {
			origin string
			md     matrixDoc
		}
		var mdocs []namedDoc
		for mi, md := range single {
			mdocs = append(mdocs, namedDoc{fmt.Sprintf("matrix/params-%d", mi), md})
		}
		for mi, md := range buildMultiMatrix(r, mopts, live, r.N(160, 1200), 80) {
			mdocs = append(mdocs, namedDoc{fmt.Sprintf("matrix/multi-params-%d", mi), md})
		}
		for _, nd := range mdocs {
			md := nd.md
			n++
			key := fmt.Sprintf("p%04d", n)
			origin := nd.origin
			if only != "" && !strings.HasPrefix(only, origin+"|") {
				continue
			}
			jobs = append(jobs, e3.SpecJob{Key: key, Spec: md.Spec, Opts: mopts})
			pk := servlab.C01Pkg{Key: key, Origin: origin, Values: r.N(10, 60), Config: "default", Defaults: md.Defaults, Combos: md.Combos}
			if tree, err := doctree.Load(md.Spec); err == nil {
				pk.Responses = ResponseKeys(tree)
			}
			info[key] = pk
		}
	}
	batch := 10
	rejected := map[string]string{}
	for b := 0; b*batch < len(jobs); b++ {
		lo, hi := b*batch, (b+1)*batch
		if hi > len(jobs) {
			hi = len(jobs)
		}
		drv, err := e3.Build(mod, fmt.Sprintf("drv%02d", b), jobs[lo:hi], false)
		if err != nil {
			fmt.Println("ERROR", err)
			return 2
		}
		var pk []servlab.C01Pkg
		for _, j := range jobs[lo:hi] {
			if msg, bad := drv.Rejected[j.Key]; bad {
				rejected[info[j.Key].Origin] = first(msg)
				continue
			}
			pk = append(pk, info[j.Key])
		}
		data, _ := json.Marshal(servlab.C01Data{Pkgs: pk, Only: only})
		res, err := drv.Run(servlab.Job{Driver: "c01", Prop: "C01", Data: data}, 60*time.Minute)
		if err != nil {
			fmt.Println("ERROR", err)
			return 2
		}
		if res.Watchdog {
			r.Inconclusive("driver-watchdog", nil)
			continue
		}
		if res.Exit != 0 {
			fmt.Printf("ERROR driver exited with %d:\n%s\n", res.Exit, res.Output)
			return 2
		}
		if err := r.MergeFile(res.OutFile); err != nil {
			fmt.Println("ERROR", err)
			return 2
		}
		os.Remove(drv.Bin)
	}
	r.Set("documents_rejected_by_generator", rejected)
	r.Assume("transport is in-process but wire-level: the request is serialised with http.Request.Write and parsed back with http.ReadRequest before Server.ServeHTTP")
	r.Assume("core domain: non-empty text over letters, digits, '_', '-' and a few non-ASCII letters, finite numbers, whole-second UTC instants; hostile domain: everything else the builder makes (delimiters, blanks, controls, empty strings, sub-second instants, zones); status codes of pattern/default variants are drawn from the set the spec allows for the variant")
	r.Assume("leaf rules as in C04; an unset optional that arrives set is counted as a schema default (its value is checked in the matrix specs with a side-car)")
	return r.Finish("every operation of the regenerated corpus packages (ogen's own feature specs for parameters, requests, responses, forms, security + examples) x reflection-built validated request, parameter and response values in core and hostile mode; oracle: delivered exactly (handler and middleware see the sent body and parameters, caller sees the returned variant, status, headers, body) or refused with an error/4xx without invoking the handler; refusal of a core value, or arrival of a changed value, is a violation. distinct = (spec, operation, mode, values)", 1500, false)
}

func first(s string) string {
	if i := strings.IndexByte(s, '\n'); i >= 0 {
		s = s[:i]
	}
	if len(s) > 200 {
		s = s[:200]
	}
	return s
}
