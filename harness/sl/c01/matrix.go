package c01

import (
	"fmt"
	"runtime"
	"strings"

	"github.com/ogen-go/ogen/gen"

	"verifharness/internal/ev"
	"verifharness/internal/genlab"
)

// Parameter matrix: every location x style x explode x schema shape x required/optional(+default),
// admitted one by one through the real parser+generator and then packed into a few documents.

type combo struct {
	Loc, Style, Explode string
	Kind                string
	Schema              string
	Required            bool
	Default             string // JSON text, "" = none
	WantDefault         string // Descr of the Go value the handler must see when the parameter is unset
}

var pKinds = []struct{ name, schema, dflt, want string }{
	{"string", `{"type":"string"}`, `"dflt"`, `"dflt"`},
	{"int32", `{"type":"integer","format":"int32"}`, `7`, `7`},
	{"int64", `{"type":"integer","format":"int64"}`, `-9007199254740993`, `-9007199254740993`},
	{"integer", `{"type":"integer"}`, "", ""},
	{"float", `{"type":"number","format":"float"}`, "", ""},
	{"double", `{"type":"number","format":"double"}`, "", ""},
	{"boolean", `{"type":"boolean"}`, `true`, `true`},
	{"uuid", `{"type":"string","format":"uuid"}`, "", ""},
	{"date-time", `{"type":"string","format":"date-time"}`, "", ""},
	{"date", `{"type":"string","format":"date"}`, "", ""},
	{"enum", `{"type":"string","enum":["red","green","blue"]}`, `"green"`, `"green"`},
	{"int-enum", `{"type":"integer","enum":[1,2,3]}`, "", ""},
	{"array-string", `{"type":"array","items":{"type":"string"}}`, "", ""},
	{"array-int", `{"type":"array","items":{"type":"integer"}}`, "", ""},
	{"array-number", `{"type":"array","items":{"type":"number"}}`, "", ""},
	{"array-bool", `{"type":"array","items":{"type":"boolean"}}`, "", ""},
	{"array-uuid", `{"type":"array","items":{"type":"string","format":"uuid"}}`, "", ""},
	{"array-enum", `{"type":"array","items":{"type":"string","enum":["a","b","c"]}}`, "", ""},
	{"object", `{"type":"object","required":["k1","k2"],"properties":{"k1":{"type":"string"},"k2":{"type":"integer"}}}`, "", ""},
	{"object-optional", `{"type":"object","properties":{"k1":{"type":"string"},"k2":{"type":"boolean"}}}`, "", ""},
	{"json-content", `CONTENT{"type":"object","required":["a"],"properties":{"a":{"type":"string"},"b":{"type":"array","items":{"type":"integer"}}}}`, "", ""},
}

var pStyles = map[string][]string{
	"path":   {"", "simple", "label", "matrix"},
	"query":  {"", "form", "pipeDelimited", "deepObject"},
	"header": {"", "simple"},
	"cookie": {"", "form"},
}

func allCombos() []combo {
	var out []combo
	for _, loc := range []string{"path", "query", "header", "cookie"} {
		for _, st := range pStyles[loc] {
			for _, ex := range []string{"", "true", "false"} {
				for _, k := range pKinds {
					for _, req := range []bool{true, false} {
						if loc == "path" && !req {
							continue
						}
						c := combo{Loc: loc, Style: st, Explode: ex, Kind: k.name, Schema: k.schema, Required: req}
						out = append(out, c)
						if !req && k.dflt != "" && st == "" && ex == "" {
							d := c
							d.Default, d.WantDefault = k.dflt, k.want
							out = append(out, d)
						}
					}
				}
			}
		}
	}
	return out
}

func (c combo) paramJSON() string { return c.paramJSONNamed("p") }

func (c combo) paramJSONNamed(name string) string {
	var b strings.Builder
	fmt.Fprintf(&b, `{"name":%q,"in":%q`, name, c.Loc)
	if c.Required {
		b.WriteString(`,"required":true`)
	}
	if c.Style != "" {
		fmt.Fprintf(&b, `,"style":%q`, c.Style)
	}
	if c.Explode != "" {
		fmt.Fprintf(&b, `,"explode":%s`, c.Explode)
	}
	sch := c.Schema
	if strings.HasPrefix(sch, "CONTENT") {
		fmt.Fprintf(&b, `,"content":{"application/json":{"schema":%s}}`, strings.TrimPrefix(sch, "CONTENT"))
	} else {
		if c.Default != "" {
			sch = strings.TrimSuffix(sch, "}") + `,"default":` + c.Default + "}"
		}
		fmt.Fprintf(&b, `,"schema":%s`, sch)
	}
	b.WriteString("}")
	return b.String()
}

func opJSON(i int, c combo) (path, item string) {
	path = fmt.Sprintf("/m%d", i)
	if c.Loc == "path" {
		path += "/{p}"
	}
	item = fmt.Sprintf(`{"get":{"operationId":"m%d","parameters":[%s],"responses":{"200":{"description":"ok","content":{"application/json":{"schema":{"type":"object","required":["echo"],"properties":{"echo":{"type":"string"}}}}}}}}}`, i, c.paramJSON())
	return
}

func docOf(idx []int, cs []combo) []byte {
	var b strings.Builder
	b.WriteString(`{"openapi":"3.0.3","info":{"title":"params","version":"1"},"paths":{`)
	for k, i := range idx {
		if k > 0 {
			b.WriteByte(',')
		}
		p, item := opJSON(i, cs[i])
		fmt.Fprintf(&b, "%q:%s", p, item)
	}
	b.WriteString("}}")
	return []byte(b.String())
}

// multiOp: one operation with several parameters. Generated code serves all parameters of a location with one
// encoder and one decoder object, so what the codec keeps between parameters is part of the exchange.
func multiOpJSON(i int, names []string, cs []combo) (path, item string) {
	path = fmt.Sprintf("/mm%d", i)
	var ps []string
	for k, c := range cs {
		if c.Loc == "path" {
			path += "/{" + names[k] + "}"
		}
		ps = append(ps, c.paramJSONNamed(names[k]))
	}
	item = fmt.Sprintf(`{"get":{"operationId":"mm%d","parameters":[%s],"responses":{"200":{"description":"ok","content":{"application/json":{"schema":{"type":"object","required":["echo"],"properties":{"echo":{"type":"string"}}}}}}}}}`, i, strings.Join(ps, ","))
	return
}

// buildMultiMatrix draws n operations of 2..4 admitted combinations each (PRNG; at least two of one location, arrays
// preferred), observes admission per operation and packs the admitted ones.
func buildMultiMatrix(r *ev.Run, opts gen.Options, live []combo, n, perDoc int) []matrixDoc {
	rng := r.Rand("multi-matrix")
	names := []string{"p", "q", "s", "t"}
	type mop struct {
		cs   []combo
		path string
		item string
	}
	var cand []combo
	for _, c := range live {
		if c.Default == "" && c.Kind != "json-content" {
			cand = append(cand, c)
		}
	}
	if len(cand) == 0 {
		return nil
	}
	ops := make([]mop, n)
	for i := range ops {
		k := 2 + rng.Intn(3)
		first := cand[rng.Intn(len(cand))]
		for try := 0; try < 6 && !strings.HasPrefix(first.Kind, "array"); try++ {
			first = cand[rng.Intn(len(cand))]
		}
		cs := []combo{first}
		objects := 0
		if strings.HasPrefix(first.Kind, "object") {
			objects++
		}
		for len(cs) < k {
			c := cand[rng.Intn(len(cand))]
			if len(cs) == 1 && c.Loc != first.Loc {
				continue // the second parameter shares the first one's location
			}
			if strings.HasPrefix(c.Kind, "object") {
				if objects > 0 {
					continue // two exploded objects would claim the same member keys
				}
				objects++
			}
			cs = append(cs, c)
		}
		ops[i].cs = cs
		ops[i].path, ops[i].item = multiOpJSON(i, names, cs)
	}
	doc := func(idx []int) []byte {
		var b strings.Builder
		b.WriteString(`{"openapi":"3.0.3","info":{"title":"several parameters per operation","version":"1"},"paths":{`)
		for k, i := range idx {
			if k > 0 {
				b.WriteByte(',')
			}
			fmt.Fprintf(&b, "%q:%s", ops[i].path, ops[i].item)
		}
		b.WriteString("}}")
		return []byte(b.String())
	}
	admitted := make([]bool, n)
	ev.Parallel(n, runtime.NumCPU(), func(i int) {
		admitted[i] = genlab.GenerateIR(doc([]int{i}), opts).OK()
	})
	var ok []int
	for i, a := range admitted {
		if a {
			ok = append(ok, i)
		}
	}
	r.Set("multi_parameter_operations_drawn", n)
	r.Set("multi_parameter_operations_admitted", len(ok))
	var out []matrixDoc
	for lo := 0; lo < len(ok); lo += perDoc {
		hi := min(lo+perDoc, len(ok))
		md := matrixDoc{Spec: doc(ok[lo:hi]), Defaults: map[string]map[string]string{}, Combos: map[string]string{}}
		for _, i := range ok[lo:hi] {
			var d []string
			for _, c := range ops[i].cs {
				d = append(d, fmt.Sprintf("%s style=%q explode=%q %s required=%v", c.Loc, c.Style, c.Explode, c.Kind, c.Required))
			}
			md.Combos["GET "+ops[i].path] = strings.Join(d, " + ")
		}
		out = append(out, md)
	}
	return out
}

type matrixDoc struct {
	Spec     []byte
	Defaults map[string]map[string]string // "GET /path" -> ".P" -> wanted Descr
	Combos   map[string]string            // "GET /path" -> combination description
}

// buildMatrix observes admission per combination and packs the admitted ones.
func buildMatrix(r *ev.Run, opts gen.Options, perDoc int) ([]matrixDoc, []combo) {
	cs := allCombos()
	admitted := make([]bool, len(cs))
	ev.Parallel(len(cs), runtime.NumCPU(), func(i int) {
		res := genlab.GenerateIR(docOf([]int{i}, cs), opts)
		admitted[i] = res.OK()
	})
	var live []int
	for i, ok := range admitted {
		if ok {
			live = append(live, i)
		}
	}
	r.Set("parameter_matrix_combinations", len(cs))
	r.Set("parameter_matrix_admitted", len(live))
	var out []matrixDoc
	for lo := 0; lo < len(live); lo += perDoc {
		hi := lo + perDoc
		if hi > len(live) {
			hi = len(live)
		}
		md := matrixDoc{Spec: docOf(live[lo:hi], cs), Defaults: map[string]map[string]string{}, Combos: map[string]string{}}
		for _, i := range live[lo:hi] {
			p, _ := opJSON(i, cs[i])
			c := cs[i]
			md.Combos["GET "+p] = fmt.Sprintf("%s style=%q explode=%q %s required=%v default=%s", c.Loc, c.Style, c.Explode, c.Kind, c.Required, c.Default)
			if c.WantDefault != "" {
				md.Defaults["GET "+p] = map[string]string{".P": c.WantDefault}
			}
		}
		out = append(out, md)
	}
	var liveCombos []combo
	for _, i := range live {
		liveCombos = append(liveCombos, cs[i])
	}
	return out, liveCombos
}
