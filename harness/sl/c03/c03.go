// Package c03 (parent side): the generated decode-and-validate path accepts a
// JSON body exactly when it satisfies the schema. Schemas, valid instances
// and boundary mutants come from internal/schemaref; every (schema,
// instance) verdict is cross-checked with python jsonschema (Draft 4) and
// dropped (inconclusive) when the two references disagree.
package c03

import (
	"encoding/json"
	"errors"
	"fmt"
	"os"
	"regexp"
	"runtime"
	"sort"
	"strings"
	"sync"
	"time"
	"unicode/utf8"

	"github.com/ogen-go/ogen/gen"

	"verifharness/internal/e3"
	"verifharness/internal/ev"
	"verifharness/internal/genlab"
	"verifharness/internal/jsonv"
	"verifharness/internal/schemaref"
	"verifharness/servlab"
)

type family struct {
	idx       int
	comps     map[string]*jsonv.Value // renamed components
	root      string
	cases     []servlab.C03Case
	insts     []*jsonv.Value
	admit     bool
	rejectW   string
	recSum    bool
	recursive bool
	param     string // parameter part: location the root schema is used at ("" = request body)
}

var refRe = regexp.MustCompile(`"#/components/schemas/([A-Za-z0-9_]+)"`)

// rename prefixes every component name and every reference to it.
func rename(comps map[string]*jsonv.Value, prefix string) map[string]*jsonv.Value {
	out := map[string]*jsonv.Value{}
	for name, s := range comps {
		txt := refRe.ReplaceAllString(string(jsonv.Compact(s)), `"#/components/schemas/`+prefix+`$1"`)
		v, err := jsonv.Parse([]byte(txt))
		if err != nil {
			panic(err)
		}
		out[prefix+name] = v
	}
	return out
}

func specDoc(fams []*family) []byte {
	paths := jsonv.NewObject()
	comps := jsonv.NewObject()
	for _, f := range fams {
		op := fmt.Sprintf(`{"post":{"operationId":"op%d","requestBody":{"required":true,"content":{"application/json":{"schema":{"$ref":"#/components/schemas/%s"}}}},"responses":{"200":{"description":"ok"}}}}`, f.idx, f.root)
		pathKey := fmt.Sprintf("/s%d", f.idx)
		if f.param != "" {
			op = fmt.Sprintf(`{"get":{"operationId":"op%d","parameters":[{"name":"v","in":%q,"required":true,"schema":{"$ref":"#/components/schemas/%s"}}],"responses":{"200":{"description":"ok"}}}}`, f.idx, f.param, f.root)
			if f.param == "path" {
				pathKey += "/{v}"
			}
		}
		ov, _ := jsonv.Parse([]byte(op))
		paths.Members = append(paths.Members, jsonv.Member{Name: pathKey, Value: ov})
		names := make([]string, 0, len(f.comps))
		for n := range f.comps {
			names = append(names, n)
		}
		sort.Strings(names)
		for _, n := range names {
			comps.Members = append(comps.Members, jsonv.Member{Name: n, Value: f.comps[n]})
		}
	}
	info, _ := jsonv.Parse([]byte(`{"title":"schemas","version":"1"}`))
	doc := jsonv.NewObject(
		jsonv.Member{Name: "openapi", Value: jsonv.NewString("3.0.3")},
		jsonv.Member{Name: "info", Value: info},
		jsonv.Member{Name: "paths", Value: paths},
		jsonv.Member{Name: "components", Value: jsonv.NewObject(jsonv.Member{Name: "schemas", Value: comps})},
	)
	return jsonv.Compact(doc)
}

func rejectClass(msg string) string {
	for _, k := range []string{"is differ", "cannot merge", "not implemented", "conflict", "discriminator", "infinite recursion", "can't generate valid name", "unsupported", "complex", "nullable", "enum"} {
		if strings.Contains(msg, k) {
			return strings.ReplaceAll(k, " ", "-")
		}
	}
	return "other"
}

func Main(args []string) int {
	r := ev.New("C03", "exploration")
	if rc := Drive(r, args, false); rc != 0 {
		return rc
	}
	r.Assume("reference validator internal/schemaref written from OpenAPI 3.0.3 / JSON Schema Wright draft-00 (Appendix C of DESIGN.md), cross-checked triple by triple with python jsonschema Draft4Validator; disagreements are dropped and reported as inconclusive")
	r.Assume("deciding domain: integers within +-2^53 written without fraction or exponent, dyadic non-integers, portable patterns, no duplicate member names, no lone surrogates, no enum+nullable; oneOf/anyOf variants disjoint by construction (distinct JSON types or discriminating required member with additionalProperties:false)")
	return r.Finish("random schemas of the supported keyword fragment (depth 1-3, wide objects crossing the required-bitmask byte boundaries, $ref, recursion, sums with and without discriminator, allOf) plus crafted allOf/nullable/default families, each served by a regenerated server; per schema: schema-directed valid instances, every single-keyword boundary mutant of them, random JSON; oracle: handler invoked with 2xx iff both references call the instance valid, else 400 without invoking the handler. distinct = (schema, instance)", 5000, false)
}

// Drive generates schema families, servers for them and runs the driver. With conformance (C04's
// conformance clause) fewer families are built and, instead of posting instances, Go values of the root
// types are built by reflection and their encodings validated against the source schema.
func Drive(r *ev.Run, args []string, conformance bool) int {
	if len(args) >= 2 && args[0] == "--replay" {
		r.Replay = args[1]
		fmt.Println("replay: schemas and instances are a function of VERIF_SEED/VERIF_TIER; re-running that tier and seed re-drives the witness (the schema and instance are stored in the replay file)")
	}
	mod, cleanup, err := genlab.EnterScratchModule("c03")
	if err != nil {
		fmt.Println("ERROR", err)
		return 2
	}
	defer cleanup()

	nFam := r.N(900, 6000)
	nParam := r.N(480, 4000) // parameter part: scalar and array schemas used as query/path/header/cookie parameters
	if conformance {
		nFam = r.N(300, 3000)
		nParam = 0
	}
	nBody := nFam
	nFam += nParam
	perSpec := 60
	opts := gen.Options{Generator: gen.GenerateOptions{Features: genlab.Features("paths/server")}}
	fams := make([]*family, nFam)
	// 1. schemas, instances, reference verdicts; admission of each family on its own
	ev.Parallel(nFam, runtime.NumCPU(), func(i int) {
		rng := ev.NewRand(r.Seed, "c03", fmt.Sprint(i))
		o := schemaref.GenOptions{Depth: 1 + i%3}
		if i%9 == 0 {
			o.ForceWide = 9 + 8*(i%2)
		}
		comps, root := schemaref.GenSchema(rng, o)
		if i < len(crafted) {
			// fixed families for keyword interactions the random grammar does not produce
			comps, root = map[string]*jsonv.Value{}, "Root"
			cv, err := jsonv.Parse([]byte(crafted[i]))
			if err != nil {
				panic(fmt.Sprintf("crafted family %d: %v", i, err))
			}
			for _, m := range cv.Members {
				comps[m.Name] = m.Value
			}
		}
		param := ""
		if i >= nBody {
			param = []string{"query", "path", "header", "cookie"}[(i-nBody)%4]
			ps := schemaref.GenParamSchema(rng, schemaref.GenOptions{})
			for k := 0; param == "cookie" && ps.Get("type").Str == "array" && k < 50; k++ {
				ps = schemaref.GenParamSchema(rng, schemaref.GenOptions{}) // cookie arrays (form, exploded) are not admitted; C06 covers cookies
			}
			comps, root = map[string]*jsonv.Value{"Root": ps}, "Root"
		}
		prefix := fmt.Sprintf("F%d", i)
		f := &family{idx: i, comps: rename(comps, prefix), root: prefix + root, param: param}
		fams[i] = f
		res := schemaref.MapResolver(f.comps)
		rootS := f.comps[f.root]
		relaxed := map[string]*jsonv.Value{}
		for n, sc := range f.comps {
			relaxed[n] = dropUndeclaredRequired(sc, f.comps)
		}
		relaxedRes := schemaref.MapResolver(relaxed)
		strict := map[string]*jsonv.Value{}
		for n, sc := range f.comps {
			strict[n] = dropNullableOnEmptyObjects(sc)
		}
		strictRes := schemaref.MapResolver(strict)
		strict2 := map[string]*jsonv.Value{}
		for n, sc := range f.comps {
			strict2[n] = dropNullableOnObjects(sc)
		}
		strict2Res := schemaref.MapResolver(strict2)
		f.recursive = hasRecursion(f.comps)
		f.recSum = recursiveSum(f.comps)
		seen := map[string]bool{}
		add := func(inst *jsonv.Value, kind string) {
			if inst == nil {
				return
			}
			body := string(jsonv.Compact(inst))
			if seen[body] {
				return
			}
			seen[body] = true
			if !schemaref.DecidableBySpec(rootS, inst, res) {
				r.Count("instances_outside_deciding_domain", 1)
				return
			}
			ok, why := schemaref.Validate(rootS, inst, res)
			if strings.HasPrefix(why, schemaref.SchemaErrorPrefix) {
				r.Count("schema_errors", 1)
				return
			}
			tag := ""
			if !ok {
				// invalid only because of required names that are not declared under properties?
				if ok2, _ := schemaref.Validate(relaxed[f.root], inst, relaxedRes); ok2 {
					tag = "required-undeclared"
				}
			} else if ok3, _ := schemaref.Validate(strict[f.root], inst, strictRes); !ok3 {
				// valid only thanks to 'nullable' on an object schema without properties
				tag = "null-for-propertyless-object"
			} else if ok4, _ := schemaref.Validate(strict2[f.root], inst, strict2Res); !ok4 && f.recursive {
				// valid only thanks to 'nullable' on an object schema, in a family with a recursive component
				tag = "null-for-object-in-recursive-family"
			}
			c := servlab.C03Case{Body: body, Valid: ok, Kind: kind, Why: why, Tag: tag}
			if f.param != "" {
				target, hdr, sendable := asParameter(f, rootS, inst)
				if !sendable {
					r.Count("parameter_instances_not_expressible_in_the_serialization", 1)
					return
				}
				c.Target, c.Header = target, hdr
			}
			f.cases = append(f.cases, c)
			f.insts = append(f.insts, inst)
		}
		for k := 0; k < 3; k++ {
			inst := schemaref.GenInstance(rootS, res, rng)
			add(inst, "valid")
			if inst != nil {
				for _, m := range schemaref.Mutants(rootS, res, inst, rng) {
					add(m.Inst, "mutant:"+m.Kind)
				}
			}
		}
		for k := 0; k < 6 && f.param == ""; k++ {
			add(schemaref.RandomJSON(rng, 3), "random")
		}
		for k := 0; k < 4 && f.param != ""; k++ {
			add(schemaref.GenInstance(rootS, res, rng), "valid")
		}
		// admission on its own (cheap): does the generator accept this schema family?
		res1 := genlab.GenerateIR(specDoc([]*family{f}), opts)
		f.admit = res1.OK()
		if !f.admit {
			f.rejectW = res1.Stage + ": " + res1.ErrText()
		}
	})
	craftedInfo := map[string]string{}
	for i := 0; i < len(crafted) && i < len(fams); i++ {
		f := fams[i]
		nv := 0
		for _, c := range f.cases {
			if c.Valid {
				nv++
			}
		}
		craftedInfo[fmt.Sprintf("crafted-%02d", i)] = fmt.Sprintf("admitted=%v valid_instances=%d invalid_instances=%d %s", f.admit, nv, len(f.cases)-nv, first(f.rejectW))
	}
	r.Set("crafted_families", craftedInfo)
	rejected := map[string]int{}
	var live []*family
	for _, f := range fams {
		if !f.admit {
			rejected[rejectClass(f.rejectW)]++
			if rejectClass(f.rejectW) == "other" && len(rejected) < 40 {
				r.Inconclusive("schema-rejected-with-unclassified-diagnostic", map[string]any{"schema": string(jsonv.Compact(f.comps[f.root])), "diagnostic": first(f.rejectW)})
			}
			continue
		}
		live = append(live, f)
	}
	r.Set("schema_families_generated", nFam)
	r.Set("schema_families_rejected_by_generator", rejected)

	// 2. second oracle: python jsonschema; drop triples on which the references disagree
	var xc []schemaref.XCase
	type ref struct{ f, c int }
	var back []ref
	for fi, f := range live {
		cm := map[string]*jsonv.Value{}
		for n, s := range f.comps {
			cm[n] = s
		}
		for ci := range f.cases {
			xc = append(xc, schemaref.XCase{Schema: f.comps[f.root], Components: cm, Instance: f.insts[ci]})
			back = append(back, ref{fi, ci})
		}
	}
	drop := map[ref]bool{}
	if conformance {
		xc = nil
	}
	xres, xerr := xcheckParallel(xc)
	switch {
	case errors.Is(xerr, schemaref.ErrNoPython):
		r.Inconclusive("python-jsonschema-not-available", nil)
	case xerr != nil:
		r.Inconclusive("python-cross-check-failed", xerr.Error())
	default:
		dis := 0
		for i, v := range xres {
			b := back[i]
			if v != live[b.f].cases[b.c].Valid {
				drop[b] = true
				dis++
				if dis <= 5 {
					r.Inconclusive("reference-oracles-disagree", map[string]any{"schema": string(jsonv.Compact(live[b.f].comps[live[b.f].root])), "instance": live[b.f].cases[b.c].Body, "go_reference": live[b.f].cases[b.c].Valid, "python_jsonschema": v})
				} else {
					r.Inconclusive("reference-oracles-disagree", nil)
				}
			}
		}
		r.Set("triples_cross_checked_with_python", len(xres))
		r.Set("triples_dropped_oracle_disagreement", dis)
	}

	// 3. pack into specs, build, drive
	var specs []servlab.C03Spec
	var jobs []e3.SpecJob
	for s := 0; s*perSpec < len(live); s++ {
		lo, hi := s*perSpec, (s+1)*perSpec
		if hi > len(live) {
			hi = len(live)
		}
		key := fmt.Sprintf("p%04d", s)
		sp := servlab.C03Spec{Key: key}
		for fi := lo; fi < hi; fi++ {
			f := live[fi]
			fam := servlab.C03Family{Path: fmt.Sprintf("/s%d", f.idx), Schema: string(jsonv.Compact(f.comps[f.root]))}
			if f.param != "" {
				fam.SigPrefix = "param/" + f.param + "/"
			}
			if f.recSum {
				fam.Tags = append(fam.Tags, "recursive-sum")
			}
			if conformance {
				all, rel, noc, both := jsonv.NewObject(), jsonv.NewObject(), jsonv.NewObject(), jsonv.NewObject()
				names := make([]string, 0, len(f.comps))
				for n := range f.comps {
					names = append(names, n)
				}
				sort.Strings(names)
				for _, n := range names {
					all.Members = append(all.Members, jsonv.Member{Name: n, Value: f.comps[n]})
					rel.Members = append(rel.Members, jsonv.Member{Name: n, Value: dropUndeclaredRequired(f.comps[n], f.comps)})
					noc.Members = append(noc.Members, jsonv.Member{Name: n, Value: dropPropertyCounts(f.comps[n])})
					both.Members = append(both.Members, jsonv.Member{Name: n, Value: dropPropertyCounts(dropUndeclaredRequired(f.comps[n], f.comps))})
				}
				fam.Root, fam.All, fam.AllRelaxed = f.root, string(jsonv.Compact(all)), string(jsonv.Compact(rel))
				fam.AllNoCount, fam.AllBoth = string(jsonv.Compact(noc)), string(jsonv.Compact(both))
				fam.Cases = nil
			}
			if len(f.comps) > 1 {
				cm := jsonv.NewObject()
				names := make([]string, 0)
				for n := range f.comps {
					if n != f.root {
						names = append(names, n)
					}
				}
				sort.Strings(names)
				for _, n := range names {
					cm.Members = append(cm.Members, jsonv.Member{Name: n, Value: f.comps[n]})
				}
				fam.Comps = string(jsonv.Compact(cm))
			}
			for ci, c := range f.cases {
				if !drop[ref{fi, ci}] {
					fam.Cases = append(fam.Cases, c)
				}
			}
			sp.Families = append(sp.Families, fam)
		}
		specs = append(specs, sp)
		jobs = append(jobs, e3.SpecJob{Key: key, Spec: specDoc(live[lo:hi]), Opts: opts})
	}
	batch := 12
	for b := 0; b*batch < len(jobs); b++ {
		lo, hi := b*batch, (b+1)*batch
		if hi > len(jobs) {
			hi = len(jobs)
		}
		drv, err := e3.Build(mod, fmt.Sprintf("drv%02d", b), jobs[lo:hi], false)
		if err != nil {
			fmt.Println("ERROR", err)
			return 2
		}
		var sp []servlab.C03Spec
		for i := lo; i < hi; i++ {
			if msg, bad := drv.Rejected[specs[i].Key]; bad {
				// each family was admitted alone; a packed spec failing is a conflict between families (names)
				r.Inconclusive("packed-spec-rejected", first(msg))
				continue
			}
			sp = append(sp, specs[i])
		}
		data, _ := json.Marshal(servlab.C03Data{Specs: sp, Conformance: conformance, Values: r.N(16, 60)})
		res, err := drv.Run(servlab.Job{Driver: "c03", Prop: r.Prop, Data: data}, 60*time.Minute)
		if err != nil {
			fmt.Println("ERROR", err)
			return 2
		}
		if res.Watchdog {
			r.Inconclusive("driver-watchdog", nil)
			continue
		}
		if res.Exit != 0 {
			fmt.Printf("ERROR driver exited with %d:\n%s\n", res.Exit, res.Output)
			return 2
		}
		if err := r.MergeFile(res.OutFile); err != nil {
			fmt.Println("ERROR", err)
			return 2
		}
		os.Remove(drv.Bin)
	}
	return 0
}

func xcheckParallel(xc []schemaref.XCase) ([]bool, error) {
	n := runtime.NumCPU() / 2
	if n < 1 {
		n = 1
	}
	if len(xc) < 2000 {
		n = 1
	}
	out := make([]bool, len(xc))
	var mu sync.Mutex
	var firstErr error
	chunk := (len(xc) + n - 1) / n
	var wg sync.WaitGroup
	for k := 0; k < n; k++ {
		lo, hi := k*chunk, (k+1)*chunk
		if lo >= len(xc) {
			break
		}
		if hi > len(xc) {
			hi = len(xc)
		}
		wg.Add(1)
		go func(lo, hi int) {
			defer wg.Done()
			res, err := schemaref.XCheck(xc[lo:hi])
			mu.Lock()
			defer mu.Unlock()
			if err != nil {
				if firstErr == nil {
					firstErr = err
				}
				return
			}
			copy(out[lo:hi], res)
		}(lo, hi)
	}
	wg.Wait()
	return out, firstErr
}

func first(s string) string {
	if i := strings.IndexByte(s, '\n'); i >= 0 {
		s = s[:i]
	}
	if len(s) > 300 {
		s = s[:300]
	}
	return s
}

func dropUndeclaredRequired(s *jsonv.Value, comps map[string]*jsonv.Value) *jsonv.Value {
	return schemaref.DropUndeclaredRequired(s, comps)
}

func recursiveSum(comps map[string]*jsonv.Value) bool {
	refs := func(v *jsonv.Value) []string {
		var out []string
		v.Walk(func(x *jsonv.Value) {
			if x.Kind == jsonv.Object {
				if r := x.Get("$ref"); r != nil && r.Kind == jsonv.String {
					out = append(out, strings.TrimPrefix(r.Str, "#/components/schemas/"))
				}
			}
		})
		return out
	}
	for name, s := range comps {
		if s.Get("oneOf") == nil && s.Get("anyOf") == nil {
			continue
		}
		seen := map[string]bool{}
		stack := refs(s)
		for len(stack) > 0 {
			n := stack[len(stack)-1]
			stack = stack[:len(stack)-1]
			if n == name {
				return true
			}
			if seen[n] || comps[n] == nil {
				continue
			}
			seen[n] = true
			// an alias of the sum (same variants) counts as the sum itself
			stack = append(stack, refs(comps[n])...)
		}
	}
	// two components with the same oneOf reaching each other (Root and Expr in the generator's family)
	for _, s := range comps {
		if s.Get("oneOf") != nil {
			for _, r := range refs(s) {
				if c := comps[r]; c != nil {
					for _, r2 := range refs(c) {
						if c2 := comps[r2]; c2 != nil && (c2.Get("oneOf") != nil || c2.Get("anyOf") != nil) {
							return true
						}
					}
				}
			}
		}
	}
	return false
}

// dropNullableOnEmptyObjects removes "nullable" from object schemas that declare no properties
// (used to name one finding, never to excuse others).
func dropNullableOnEmptyObjects(s *jsonv.Value) *jsonv.Value {
	c := s.Clone()
	c.Walk(func(x *jsonv.Value) {
		if x.Kind != jsonv.Object {
			return
		}
		t := x.Get("type")
		if t == nil || t.Kind != jsonv.String || t.Str != "object" || x.Get("nullable") == nil {
			return
		}
		if p := x.Get("properties"); p != nil && p.Kind == jsonv.Object && len(p.Members) > 0 {
			return
		}
		if ap := x.Get("additionalProperties"); ap != nil && ap.Kind == jsonv.Object {
			return
		}
		var keep []jsonv.Member
		for _, m := range x.Members {
			if m.Name != "nullable" {
				keep = append(keep, m)
			}
		}
		x.Members = keep
	})
	return c
}

// dropNullableOnObjects removes "nullable" from every object schema (naming only).
func dropNullableOnObjects(s *jsonv.Value) *jsonv.Value {
	c := s.Clone()
	c.Walk(func(x *jsonv.Value) {
		if x.Kind != jsonv.Object {
			return
		}
		t := x.Get("type")
		if t == nil || t.Kind != jsonv.String || t.Str != "object" || x.Get("nullable") == nil {
			return
		}
		var keep []jsonv.Member
		for _, m := range x.Members {
			if m.Name != "nullable" {
				keep = append(keep, m)
			}
		}
		x.Members = keep
	})
	return c
}

// hasRecursion: some component is reachable from itself.
func hasRecursion(comps map[string]*jsonv.Value) bool {
	refs := func(v *jsonv.Value) []string {
		var out []string
		v.Walk(func(x *jsonv.Value) {
			if x.Kind == jsonv.Object {
				if r := x.Get("$ref"); r != nil && r.Kind == jsonv.String {
					out = append(out, strings.TrimPrefix(r.Str, "#/components/schemas/"))
				}
			}
		})
		return out
	}
	for name := range comps {
		seen := map[string]bool{}
		stack := refs(comps[name])
		for len(stack) > 0 {
			n := stack[len(stack)-1]
			stack = stack[:len(stack)-1]
			if n == name {
				return true
			}
			if seen[n] || comps[n] == nil {
				continue
			}
			seen[n] = true
			stack = append(stack, refs(comps[n])...)
		}
	}
	return false
}

// crafted schema families (components maps with a "Root"): allOf merges in which the keywords of one
// branch constrain members declared in another, same member constrained in both branches, numeric and
// string keyword pairs split over branches, nullable/default combinations.
var crafted = []string{
	`{"Root":{"allOf":[{"$ref":"#/components/schemas/Base"},{"type":"object","required":["name"]}]},"Base":{"type":"object","properties":{"name":{"type":"string"},"age":{"type":"integer"}}}}`,
	`{"Root":{"allOf":[{"type":"object","properties":{"name":{"type":"string"},"age":{"type":"integer"}}},{"type":"object","required":["name","age"]}]}}`,
	`{"Root":{"allOf":[{"type":"object","required":["id"],"properties":{"id":{"type":"integer"}}},{"type":"object","required":["id","tag"],"properties":{"tag":{"type":"string","minLength":2}}}]}}`,
	`{"Root":{"type":"object","required":["v"],"properties":{"v":{"allOf":[{"type":"number","maximum":10,"exclusiveMaximum":true},{"type":"number","minimum":0}]}}}}`,
	`{"Root":{"type":"object","required":["v"],"properties":{"v":{"allOf":[{"type":"integer","minimum":1,"exclusiveMinimum":true},{"type":"integer","maximum":8,"exclusiveMaximum":true}]}}}}`,
	`{"Root":{"type":"object","required":["v"],"properties":{"v":{"allOf":[{"type":"integer","minimum":0},{"type":"integer","maximum":20,"exclusiveMaximum":true,"multipleOf":5}]}}}}`,
	`{"Root":{"type":"object","required":["s"],"properties":{"s":{"allOf":[{"type":"string","minLength":2},{"type":"string","maxLength":4}]}}}}`,
	`{"Root":{"type":"object","required":["s"],"properties":{"s":{"allOf":[{"type":"string","pattern":"^[a-z]+$"},{"type":"string","maxLength":3}]}}}}`,
	`{"Root":{"allOf":[{"type":"object","properties":{"a":{"type":"integer","minimum":1}}},{"type":"object","properties":{"a":{"type":"integer","maximum":5}},"required":["a"]}]}}`,
	`{"Root":{"type":"object","required":["l"],"properties":{"l":{"allOf":[{"type":"array","items":{"type":"integer"},"minItems":1},{"type":"array","items":{"type":"integer"},"maxItems":3,"uniqueItems":true}]}}}}`,
	`{"Root":{"type":"object","required":["a","b"],"properties":{"a":{"type":"string","nullable":true,"default":null},"b":{"type":"integer","nullable":true},"c":{"type":"string","nullable":true,"default":null},"d":{"type":"string","default":"x","minLength":1},"e":{"type":"array","items":{"type":"string"},"nullable":true,"minItems":1},"f":{"type":"object","properties":{"g":{"type":"integer"}},"nullable":true}}}}`,
	`{"Root":{"type":"object","properties":{"m":{"type":"object","additionalProperties":{"type":"integer","minimum":0},"minProperties":1,"maxProperties":2},"n":{"type":"object","additionalProperties":false,"properties":{"k":{"type":"string"}}},"o":{"type":"object","additionalProperties":{"type":"string","nullable":true}}},"required":["m"],"additionalProperties":false}}`,
	`{"Root":{"oneOf":[{"$ref":"#/components/schemas/Cat"},{"$ref":"#/components/schemas/Dog"}],"discriminator":{"propertyName":"kind","mapping":{"cat":"#/components/schemas/Cat","dog":"#/components/schemas/Dog"}}},"Cat":{"type":"object","required":["kind","lives"],"properties":{"kind":{"type":"string","enum":["cat"]},"lives":{"type":"integer","minimum":1,"maximum":9}},"additionalProperties":false},"Dog":{"type":"object","required":["kind","bark"],"properties":{"kind":{"type":"string","enum":["dog"]},"bark":{"type":"boolean"}},"additionalProperties":false}}`,
	// one array / object component referenced as optional member here and as required member (or item) there, in both
	// declaration orders: what one use decides about the shared type (nil semantic, validators) must not leak into the other
	`{"Root":{"type":"object","properties":{"tags":{"$ref":"#/components/schemas/List"},"sub":{"$ref":"#/components/schemas/Sub"}}},"Sub":{"type":"object","required":["tags"],"properties":{"tags":{"$ref":"#/components/schemas/List"}}},"List":{"type":"array","items":{"type":"string","minLength":1},"minItems":1,"maxItems":3}}`,
	`{"Root":{"type":"object","properties":{"sub":{"$ref":"#/components/schemas/Sub"},"tags":{"$ref":"#/components/schemas/List"}}},"Sub":{"type":"object","required":["tags"],"properties":{"tags":{"$ref":"#/components/schemas/List"}}},"List":{"type":"array","items":{"type":"string","minLength":1},"minItems":1,"maxItems":3}}`,
	`{"Root":{"type":"object","required":["rows"],"properties":{"tags":{"$ref":"#/components/schemas/List"},"rows":{"type":"array","items":{"$ref":"#/components/schemas/List"}},"maybe":{"type":"object","properties":{"tags":{"$ref":"#/components/schemas/List"}},"required":["tags"]}}},"List":{"type":"array","items":{"type":"integer","minimum":0},"minItems":1,"uniqueItems":true}}`,
	`{"Root":{"type":"object","required":["a"],"properties":{"a":{"$ref":"#/components/schemas/Obj"},"b":{"$ref":"#/components/schemas/Obj"},"zs":{"type":"array","items":{"$ref":"#/components/schemas/Obj"},"maxItems":2}}},"Obj":{"type":"object","required":["k"],"properties":{"k":{"type":"string","maxLength":2},"l":{"$ref":"#/components/schemas/List"}}},"List":{"type":"array","items":{"type":"string"},"minItems":2}}`,
	`{"Root":{"type":"object","required":["u"],"properties":{"u":{"anyOf":[{"type":"string","minLength":3},{"type":"integer","minimum":10},{"type":"array","items":{"type":"boolean"},"maxItems":2}]}}}}`,
}

func dropPropertyCounts(s *jsonv.Value) *jsonv.Value { return schemaref.DropPropertyCounts(s) }

// asParameter serialises an instance of a scalar/array parameter schema the way the OpenAPI style table prescribes
// for the location's default style (query: form exploded; path, header: simple; cookie: form) and says whether the
// instance is in the domain where text and JSON value correspond one to one: the JSON kind equals the declared
// type (a query string "12" is a valid string, the JSON number 12 is not), no null, no empty array (an absent
// parameter), and strings the location can carry unambiguously.
func asParameter(f *family, schema, inst *jsonv.Value) (target string, hdr map[string]string, ok bool) {
	typ := ""
	if t := schema.Get("type"); t != nil {
		typ = t.Str
	}
	itemTyp := ""
	if it := schema.Get("items"); it != nil && it.Get("type") != nil {
		itemTyp = it.Get("type").Str
	}
	text := func(t string, v *jsonv.Value) (string, bool) {
		switch {
		case t == "string" && v.Kind == jsonv.String:
			s := v.Str
			if !utf8.ValidString(s) {
				return "", false
			}
			switch f.param {
			case "query":
				return s, true
			case "path":
				if s == "" || (typ == "array" && strings.Contains(s, ",")) {
					return "", false
				}
				return s, true
			case "header":
				if s == "" || strings.TrimSpace(s) != s || (typ == "array" && strings.Contains(s, ",")) {
					return "", false
				}
				for _, r := range s {
					if r < 0x20 || r > 0x7e {
						return "", false
					}
				}
				return s, true
			default: // cookie: only what needs no escaping
				if s == "" {
					return "", false
				}
				for _, r := range s {
					if !(r >= 'a' && r <= 'z' || r >= 'A' && r <= 'Z' || r >= '0' && r <= '9' || r == '_' || r == '.' || r == '~' || r == '-') {
						return "", false
					}
				}
				return s, true
			}
		case (t == "integer" || t == "number") && v.Kind == jsonv.Number:
			return v.Num.Text, true
		case t == "boolean" && v.Kind == jsonv.Bool:
			if v.B {
				return "true", true
			}
			return "false", true
		}
		return "", false
	}
	var vals []string
	if typ == "array" {
		if inst.Kind != jsonv.Array || len(inst.Elems) == 0 {
			return "", nil, false
		}
		for _, e := range inst.Elems {
			t, ok := text(itemTyp, e)
			if !ok {
				return "", nil, false
			}
			vals = append(vals, t)
		}
	} else {
		t, ok := text(typ, inst)
		if !ok {
			return "", nil, false
		}
		vals = []string{t}
	}
	base := fmt.Sprintf("/s%d", f.idx)
	esc := func(s string) string { // every byte outside the unreserved set is escaped
		var b strings.Builder
		for i := 0; i < len(s); i++ {
			c := s[i]
			if c >= 'a' && c <= 'z' || c >= 'A' && c <= 'Z' || c >= '0' && c <= '9' || c == '-' || c == '.' || c == '_' || c == '~' {
				b.WriteByte(c)
			} else {
				fmt.Fprintf(&b, "%%%02X", c)
			}
		}
		return b.String()
	}
	switch f.param {
	case "query":
		var parts []string
		for _, v := range vals {
			parts = append(parts, "v="+esc(v))
		}
		return base + "?" + strings.Join(parts, "&"), nil, true
	case "path":
		var parts []string
		for _, v := range vals {
			parts = append(parts, esc(v))
		}
		return base + "/" + strings.Join(parts, ","), nil, true
	case "header":
		return base, map[string]string{"V": strings.Join(vals, ",")}, true
	default:
		if typ == "array" {
			return "", nil, false // cookie arrays: form, explode=false only; left to C06
		}
		return base, map[string]string{"Cookie": "v=" + vals[0]}, true
	}
}
