// Package c05 (parent side): builds route-set specs, generates servers for
// them with the generator under test, links them into one driver and lets
// the servlab c05 driver decide every request against the reference router.
package c05

import (
	"encoding/json"
	"fmt"
	"os"
	"sort"
	"strings"
	"time"

	"github.com/ogen-go/ogen/gen"

	"verifharness/internal/e3"
	"verifharness/internal/ev"
	"verifharness/internal/genlab"
	"verifharness/servlab"
)

// "~me" sorts after '{' and "$x" before every letter: static siblings on both sides of a parameter in any ordering by bytes
var segAlphabet = []string{"a", "b", "ab", "st", "{p}", "{p}x", "a{p}", "{p}-c", "{p}.json", "~me", "$x"}

var methodPool = []string{"GET", "POST", "PUT", "DELETE", "PATCH", "HEAD", "OPTIONS", "TRACE"}

func allTemplates(depth int) []string {
	var out []string
	var rec func(prefix string, d int)
	rec = func(prefix string, d int) {
		if d > 0 {
			out = append(out, prefix)
		}
		if d == depth {
			return
		}
		for _, s := range segAlphabet {
			rec(prefix+"/"+s, d+1)
		}
	}
	rec("", 0)
	// rename parameters p0, p1, ...
	for i, t := range out {
		k := 0
		for strings.Contains(t, "{p}") {
			t = strings.Replace(t, "{p}", fmt.Sprintf("{p%d}", k), 1)
			k++
		}
		out[i] = t
	}
	return out
}

func mkSet(key, origin string, paths []string, rng *ev.Rand) servlab.C05Set {
	s := servlab.C05Set{Key: key, Origin: origin}
	for i, p := range paths {
		t := servlab.C05Template{Path: p, Methods: map[string]string{}}
		n := 1 + rng.Intn(3)
		for j := 0; j < n; j++ {
			m := methodPool[rng.Intn(len(methodPool))]
			if j == 0 && rng.Intn(4) != 0 {
				m = "GET"
			}
			t.Methods[m] = fmt.Sprintf("t%d%s", i, strings.ToLower(m))
		}
		s.Templates = append(s.Templates, t)
	}
	return s
}

// SpecFor renders the OpenAPI document of a route set.
func SpecFor(s servlab.C05Set) []byte {
	paths := map[string]any{}
	for _, t := range s.Templates {
		item := map[string]any{}
		var params []any
		for _, p := range servlab.ParseTemplate(t.Path) {
			if p.Param != "" {
				params = append(params, map[string]any{"name": p.Param, "in": "path", "required": true, "schema": map[string]any{"type": "string"}})
			}
		}
		for m, id := range t.Methods {
			op := map[string]any{"operationId": id, "responses": map[string]any{"200": map[string]any{"description": "ok"}}}
			if len(params) > 0 {
				op["parameters"] = params
			}
			item[strings.ToLower(m)] = op
		}
		paths[t.Path] = item
	}
	doc := map[string]any{"openapi": "3.0.3", "info": map[string]any{"title": "routes", "version": "1"}, "paths": paths}
	b, _ := json.Marshal(doc)
	return b
}

// regression route sets: witnesses of earlier findings and of sensitivity experiments.
var regression = [][]string{
	{"/e/st{p0}", "/e/{p0}/f"},
	{"/a/{p0}-c"},
	{"/a/{p0}", "/a/b"},
	{"/a/{p0}/b", "/a/st/c"},
	{"/{p0}", "/a", "/ab", "/a/{p0}"},
	{"/a{p0}", "/ab", "/a/{p0}"},
	{"/{p0}.json", "/{p0}x", "/{p0}"},
	{"/st/{p0}/a", "/{p0}/{p1}/b", "/st/ab/{p0}"},
	{"/{p0}/a", "/{p0}/b", "/{p0}/{p1}"},
	{"/a/{p0}x/b", "/a/{p0}/b"},
	{"/users/~me", "/users/{p0}"},
	{"/a/~x", "/a/{p0}", "/a/b"},
	{"/$a", "/{p0}", "/~"},
	{"/a/{p0}/c", "/a/~me/d", "/a/|x"},
}

func Main(args []string) int {
	r := ev.New("C05", "exploration")
	if rc := Drive(r, args, false); rc != 0 {
		return rc
	}
	r.Set("segment_alphabet", segAlphabet)
	r.Assume("reference router: a template matches a path iff some assignment of slash-free strings to its parameters reproduces the path; matching is on URL.Path, or on the reference-normalised RawPath when one is set")
	r.Assume("restricted completeness is demanded only for instances whose values are non-empty and contain no '/', no '%' and none of the bytes that directly follow any parameter in the set; OPTIONS 204 with Access-Control-Allow-Methods is accepted as the documented default for 405")
	return r.Finish("route sets over the segment alphabet (regression list + stride through all 1- and 2-template sets of depth<=2 + PRNG sets of 3-4 templates of depth<=3, 1-3 methods each), servers regenerated from /repo; per set: template instances with fresh, sibling-static, tail-byte, empty and escaped values, near misses, re-escaped and hand-built URLs, malformed RawPath, every path shorter than max_len over the set's own alphabet, nine methods, with and without path prefix (also with the prefix needlessly escaped); each decided by the reference router. distinct = (set, method, request-target) on sets with a parameter or with status != 404", 5000, false)
}

// Drive generates the route-set servers and runs the router driver, merging what it observed into r.
// With escapesOnly (used by C12's routing clause) fewer sets are built and only the requests that differ
// from a canonical spelling by hex case, needless escapes, a hand-built or malformed RawPath, or an escaped
// path prefix are judged.
func Drive(r *ev.Run, args []string, escapesOnly bool) int {
	only := ""
	if len(args) >= 2 && args[0] == "--replay" {
		r.Replay = args[1]
	}
	mod, cleanup, err := genlab.EnterScratchModule("c05")
	if err != nil {
		fmt.Println("ERROR", err)
		return 2
	}
	defer cleanup()

	rng := r.Rand("sets")
	var sets []servlab.C05Set
	n := 0
	key := func() string { n++; return fmt.Sprintf("p%04d", n) }

	if r.Replay != "" {
		var w struct {
			Templates []string `json:"templates"`
			Request   struct {
				Method, Target, Raw string
			} `json:"request"`
		}
		var raw struct {
			Templates []string        `json:"templates"`
			Request   json.RawMessage `json:"request"`
		}
		if err := ev.ReadReplay(r.Replay, &raw); err != nil {
			fmt.Println("ERROR", err)
			return 2
		}
		_ = w
		s := servlab.C05Set{Key: key(), Origin: "regression"}
		for _, t := range raw.Templates {
			// "path [M1,M2]"
			f := strings.SplitN(t, " [", 2)
			tt := servlab.C05Template{Path: f[0], Methods: map[string]string{}}
			if len(f) == 2 {
				for i, m := range strings.Split(strings.TrimSuffix(f[1], "]"), ",") {
					tt.Methods[m] = fmt.Sprintf("t%d%s", i+len(s.Templates)*10, strings.ToLower(m))
				}
			}
			s.Templates = append(s.Templates, tt)
		}
		sets = append(sets, s)
		var q struct {
			Method string `json:"method"`
			Target string `json:"target"`
			Raw    string `json:"raw_path"`
		}
		json.Unmarshal(raw.Request, &q)
		only = s.Key + "|" + q.Method + "|" + q.Target + q.Raw
		fmt.Printf("replay: templates %v request %s %s%s (the whole request list of the set is re-driven unless the request is found in it)\n", raw.Templates, q.Method, q.Target, q.Raw)
		only = "" // request lists are PRNG-dependent on the set key; re-drive everything for the set
	} else {
		for _, ps := range regression {
			sets = append(sets, mkSet(key(), "regression", ps, rng))
		}
		// bounded-exhaustive: singles of depth<=2 and pairs of depth<=2, walked with a fixed stride
		t2 := allTemplates(2)
		var pairs [][]string
		for _, t := range t2 {
			pairs = append(pairs, []string{t})
		}
		for i := 0; i < len(t2); i++ {
			for j := i + 1; j < len(t2); j++ {
				pairs = append(pairs, []string{t2[i], t2[j]})
			}
		}
		r.Set("exhaustive_space_sets", len(pairs))
		want := r.N(400, 3000)
		if escapesOnly {
			want = r.N(60, 600)
		}
		if want > len(pairs) {
			want = len(pairs)
		}
		// deterministic spread over the list (offset chosen by seed): a full pass in thorough would be `exhaustive`
		stride := len(pairs) / want
		off := rng.Intn(stride + 1)
		for i := 0; i < want; i++ {
			sets = append(sets, mkSet(key(), "exhaustive", pairs[(off+i*stride)%len(pairs)], rng))
		}
		// PRNG sets of 3-4 templates, depth <= 3, biased to shared prefixes
		t3 := allTemplates(3)
		nRandom := r.N(160, 1200)
		if escapesOnly {
			nRandom = r.N(40, 300)
		}
		for i := 0; i < nRandom; i++ {
			k := 3 + rng.Intn(2)
			var ps []string
			base := ev.Pick(rng, t3)
			ps = append(ps, base)
			for len(ps) < k {
				var c string
				if rng.Intn(3) > 0 {
					// sibling: replace one segment of base
					segs := strings.Split(strings.TrimPrefix(base, "/"), "/")
					j := rng.Intn(len(segs))
					segs[j] = ev.Pick(rng, segAlphabet)
					c = "/" + strings.Join(segs, "/")
					if rng.Intn(3) == 0 {
						c += "/" + ev.Pick(rng, segAlphabet)
					}
					kk := 0
					c = strings.NewReplacer("{p0}", "{p}", "{p1}", "{p}", "{p2}", "{p}", "{p3}", "{p}").Replace(c)
					for strings.Contains(c, "{p}") {
						c = strings.Replace(c, "{p}", fmt.Sprintf("{p%d}", kk), 1)
						kk++
					}
				} else {
					c = ev.Pick(rng, t3)
				}
				dup := false
				for _, e := range ps {
					if e == c {
						dup = true
					}
				}
				if !dup {
					ps = append(ps, c)
				}
			}
			sets = append(sets, mkSet(key(), "random", ps, rng))
		}
	}

	// build in batches (one driver binary per batch)
	batch := 250
	opts := gen.Options{Generator: gen.GenerateOptions{Features: genlab.Features("paths/server")}}
	rejected := map[string]int{}
	for b := 0; b*batch < len(sets); b++ {
		lo, hi := b*batch, (b+1)*batch
		if hi > len(sets) {
			hi = len(sets)
		}
		var jobs []e3.SpecJob
		for _, s := range sets[lo:hi] {
			jobs = append(jobs, e3.SpecJob{Key: s.Key, Spec: SpecFor(s), Opts: opts})
		}
		drv, err := e3.Build(mod, fmt.Sprintf("drv%02d", b), jobs, false)
		if err != nil {
			fmt.Println("ERROR", err)
			return 2
		}
		var live []servlab.C05Set
		for _, s := range sets[lo:hi] {
			if msg, bad := drv.Rejected[s.Key]; bad {
				cls := classifyReject(msg)
				rejected[cls]++
				if cls == "other" {
					r.Inconclusive("route-set-rejected-with-unclassified-diagnostic", map[string]any{"templates": paths(s), "diagnostic": msg})
				}
				continue
			}
			live = append(live, s)
		}
		data, _ := json.Marshal(servlab.C05Data{Sets: live, MaxLen: r.N(4, 5), Only: only, EscapesOnly: escapesOnly})
		res, err := drv.Run(servlab.Job{Driver: "c05", Prop: r.Prop, Data: data}, 40*time.Minute)
		if err != nil {
			fmt.Println("ERROR", err)
			return 2
		}
		if res.Watchdog {
			r.Inconclusive("driver-watchdog", nil)
			continue
		}
		if res.Exit != 0 {
			fmt.Printf("ERROR driver exited with %d:\n%s\n", res.Exit, res.Output)
			return 2
		}
		if err := r.MergeFile(res.OutFile); err != nil {
			fmt.Println("ERROR", err)
			return 2
		}
		os.Remove(drv.Bin)
	}
	r.Set("route_sets_rejected_by_generator", rejected)
	return 0
}

func paths(s servlab.C05Set) []string {
	var out []string
	for _, t := range s.Templates {
		out = append(out, t.Path)
	}
	sort.Strings(out)
	return out
}

func classifyReject(msg string) string {
	switch {
	case strings.Contains(msg, "duplicate path"):
		return "duplicate-path"
	case strings.Contains(msg, "conflict"):
		return "route-conflict"
	case strings.Contains(msg, "two parameters in a row"):
		return "adjacent-parameters"
	case strings.Contains(msg, "panic"):
		return "other"
	}
	return "other"
}
