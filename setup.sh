#!/bin/bash
# Builds the harness from files on disk only (offline) and warms the Go build cache.
set -eu
cd "$(dirname "$(readlink -f "$0")")"
export GOFLAGS=-mod=mod GOPROXY=off GOSUMDB=off GOTOOLCHAIN=local
mkdir -p bin evidence replay
(cd harness && go build -o ../bin/vf ./cmd/vf)
echo "setup ok"
